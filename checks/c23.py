"""C23 — string / bytes / raw literals and bracket strings vs CPython.

History observed: the models `hy.read_many` yields for one literal text (type,
value) or the escaping exception.
Oracle: quoted literals — CPython reading the same body inside a triple-quoted
literal with the same prefix (`ast.literal_eval`, warnings recorded): same value
after newline normalisation, or a reader error where Python raises or reports
an `invalid escape sequence`. Bracket strings — closed form: content up to the
first closer, verbatim apart from newline normalisation, minus one leading
newline.
"""
import ast
import warnings

from hv.common import rng_for
from hv import textgen as tg

ID = "C23"
LEVEL = "exploration"
RULE = ("literal texts: prefix in {'', r, b, br, rb} x random body of atomic items (plain chars, "
        "tabs/FF, LF/CR/CRLF, Latin-1/BMP/astral, backslash + every ASCII char, backslash + non-ASCII, "
        "valid and truncated \\x \\u \\U \\N{} and octal escapes, escaped quotes); bracket strings with "
        "random delimiters (empty, punctuation, whitespace, Unicode, not f/f-...) and contents biased to "
        "`]`, closer fragments, embedded closers and leading newlines. Non-trivial = content with an "
        "escape, a non-ASCII character or a newline; distinct by literal text.")
FLOOR = {"quick": 4000, "thorough": 4000}
BUDGET = {"quick": 20, "thorough": 480}
CASE_TIMEOUT = 20
NEEDS_EVENTS = True
ANCHORS = ["hy.reader.hy_reader:HyReader.prefixed_string",
           "hy.reader.hy_reader:HyReader.read_chars_until",
           "hy.reader.hy_reader:HyReader.bracketed_string",
           "hy.reader.hy_reader:HyReader.read_string_until"]
ASSUMPTIONS = ["CPython 3.12 string-literal semantics (tokenizer newline translation, escape decoding, "
               "SyntaxWarning 'invalid escape sequence' for unrecognised escapes)",
               "a Hy literal p\"BODY\" is equivalent to Python's p\"\"\"BODY\"\"\" when BODY has no "
               "unescaped double quote"]
MANIFEST = {
    "text": "Random literal bodies under each of the prefixes '', r, b, br, rb are read by the real reader "
            "and by CPython (same body, triple-quoted, warnings recorded); values must agree after newline "
            "normalisation and Python's errors / 'invalid escape sequence' must be Hy reader errors. Bracket "
            "strings are checked against the closed form. Exploration: held on the literals read.",
    "note": "Trusted: CPython 3.12 literal semantics. Out of scope: NUL and lone surrogates inside quoted "
            "literals (CPython cannot compile such source), f-/t-strings (C24). A backslash before a "
            "non-ASCII character (which CPython leaves in the string without the warning) may be either "
            "a reader error or Python's value.",
    "technique": "runtime monitoring: differential of the reader's String/Bytes model against CPython "
                 "literal evaluation with recorded warnings; closed form for bracket strings",
}

PREFIXES = ["", "", "r", "b", "br", "rb"]


def cases(seed, tier, shard, nshards):
    i = 0
    while True:
        rng = rng_for(seed, ID, shard, i)
        i += 1
        if rng.random() < 0.72:
            body, feats = tg.string_body(rng)
            yield {"kind": "quoted", "prefix": rng.choice(PREFIXES), "body": body,
                   "feats": sorted(feats)}
        else:
            d = tg.bracket_delim(rng)
            yield {"kind": "bracket", "delim": d, "content": tg.bracket_content(rng, d)}


def case_key(case):
    if case["kind"] == "quoted":
        return ["q", case["prefix"], case["body"]]
    return ["b", case["delim"], case["content"]]


def _py_eval(src):
    with warnings.catch_warnings(record=True) as rec:
        warnings.simplefilter("always")
        try:
            v = ast.literal_eval(src)
        except (SyntaxError, ValueError) as e:
            return ("error", f"{type(e).__name__}: {str(e)[:80]}"), []
    return ("value", v), [str(w.message) for w in rec]


def _neutralise_big_octal(body):
    """CPython reports only the *first* questionable escape of a literal, so an
    out-of-range octal escape (`\\400`, a recognised escape) would hide a later
    unrecognised one. Rewrite `\\[4-7]oo` to `\\0oo` (backslash parity respected)."""
    out, i, n = [], 0, len(body)
    while i < n:
        c = body[i]
        if c == "\\" and i + 1 < n:
            d = body[i + 1]
            if d in "4567" and body[i + 2:i + 4].isdigit() and all(x in "01234567" for x in body[i + 2:i + 4]) \
                    and len(body[i + 2:i + 4]) == 2:
                d = "0"
            out.append(c + d)
            i += 2
        else:
            out.append(c)
            i += 1
    return "".join(out)


def python_reading(prefix, body):
    """-> ("value", v, octal_warning) | ("error", description)"""
    res, msgs = _py_eval(prefix + '"""' + body + '"""')
    if res[0] == "error":
        return res
    bad = [m for m in msgs if m.startswith("invalid escape sequence")]
    octal = any(m.startswith("invalid octal escape") for m in msgs)
    if octal and not bad and "r" not in prefix:
        res2, msgs2 = _py_eval(prefix + '"""' + _neutralise_big_octal(body) + '"""')
        bad = [m for m in msgs2 if m.startswith("invalid escape sequence")]
        if res2[0] == "error":      # cannot happen: same escapes, smaller octal values
            raise AssertionError(f"neutralised body fails: {body!r}")
    if bad:
        return ("error", "SyntaxWarning: " + bad[0])
    return ("value", res[1], octal)


def _observe(text):
    import hy.models as M
    ms, exc = tg.read_all(text)
    if exc is not None:
        return ("exc", tg.exc_name(exc), tg.is_reader_error(exc), str(exc).split("\n")[0][:80]), ms
    out = []
    for m in ms:
        if type(m) is M.String:
            out.append(("String", str(m), m.brackets))
        elif type(m) is M.Bytes:
            out.append(("Bytes", bytes(m), None))
        else:
            out.append((type(m).__name__, None, None))
    return ("models", out), ms


def run_quoted(case):
    prefix, body = case["prefix"], case["body"]
    feats = set(case.get("feats", ()))
    text = prefix + '"' + body + '"'
    exp = python_reading(prefix, body)
    got, _ = _observe(text)
    classes = ["kind:quoted", "prefix:" + (prefix or "none"), "py:" + exp[0]]
    classes.extend("feat:" + f for f in sorted(feats))
    res = {"ok": True, "events": 1, "classes": classes,
           "nontrivial": bool(feats & {"escape", "non-ascii", "newline"}),
           "sample": {"text": text}}
    if got[0] == "exc":
        classes.append("hy:" + got[1])
        if not got[2]:
            res.update(ok=False, why=f"{text!r} raised {got[1]} ({got[3]}), not a reader error")
            return res
    else:
        classes.append("hy:value")

    lenient = "esc-nonascii" in feats and "r" not in prefix
    if exp[0] == "error":
        if got[0] != "exc":
            res.update(ok=False, why=f"{text!r}: Python rejects the literal ({exp[1]}) but Hy read {got[1]!r}")
        return res
    value = exp[1]
    if exp[2]:
        classes.append("py:octal-out-of-range")
    if got[0] == "exc":
        if lenient:
            classes.append("carve:backslash-nonascii-rejected")
            return res
        res.update(ok=False, why=f"{text!r}: Python reads {value!r} but Hy raised {got[1]}: {got[3]}")
        return res
    want = ("Bytes" if isinstance(value, bytes) else "String", value, None)
    if got[1] != [want]:
        res.update(ok=False, why=f"{text!r}: Python reads {value!r} but Hy read {got[1]!r}")
    elif lenient:
        classes.append("carve:backslash-nonascii-accepted")
    return res


def bracket_expected(delim, content):
    closer = "]" + delim + "]"
    full = content + closer
    cut = full.find(closer)
    denoted = full[:cut]
    rest = full[cut + len(closer):]
    s = tg.normalize_newlines(denoted)
    if s.startswith("\n"):
        s = s[1:]
    return s, rest


def run_bracket(case):
    delim, content = case["delim"], case["content"]
    text = "#[" + delim + "[" + content + "]" + delim + "]"
    want, rest = bracket_expected(delim, content)
    got, _ = _observe(text)
    classes = ["kind:bracket", "delim:" + ("empty" if not delim else "ascii" if delim.isascii() else "non-ascii"),
               "early-closer" if rest else "closer-at-end"]
    for name, cond in (("has-]", "]" in content), ("leading-nl", content[:1] in ("\n", "\r")),
                       ("cr", "\r" in content), ("backslash", "\\" in content)):
        if cond:
            classes.append("feat:" + name)
    nontrivial = ("\\" in content or "\n" in content or "\r" in content or not content.isascii()
                  or not delim.isascii())
    res = {"ok": True, "events": 1, "classes": classes, "nontrivial": nontrivial,
           "sample": {"text": text}}
    first = None
    if got[0] == "models":
        first = got[1][0] if got[1] else None
    else:
        classes.append("hy:" + got[1])
        if not got[2]:
            res.update(ok=False, why=f"{text!r} raised {got[1]}, not a reader error")
            return res
        if rest:
            # the literal ended early and what follows it is arbitrary text:
            # read just the first form
            import hy
            try:
                m = hy.read(text)
                import hy.models as M
                first = ("String", str(m), m.brackets) if type(m) is M.String else (type(m).__name__, None, None)
            except Exception as e:
                res.update(ok=False, why=f"{text!r}: first form must be the string {want!r} but reading "
                                         f"it raised {type(e).__name__}")
                return res
        else:
            res.update(ok=False, why=f"{text!r} must read as the string {want!r} but raised {got[1]}: {got[3]}")
            return res
    if first is None or first[0] != "String" or first[1] != want:
        res.update(ok=False, why=f"{text!r} must read as the string {want!r} but read {first!r}")
        return res
    if not rest and got[0] == "models" and len(got[1]) != 1:
        res.update(ok=False, why=f"{text!r} must read as one string but read {got[1]!r}")
        return res
    if first[2] != delim:
        classes.append("observed:brackets-attr-differs")
    return res


KEY_NL_CLOSER = "bracket-closer-appears-after-newline-normalisation"


def run_case(case):
    if case["kind"] == "quoted":
        return run_quoted(case)
    res = run_bracket(case)
    if res["ok"] is False:
        # known mechanism: the delimiter contains a newline character and the
        # content contains `]` + a *different* newline style + `]`: no closer in
        # the raw text, but one in the normalised content, which String() rejects.
        delim, content = case["delim"], case["content"]
        closer = "]" + delim + "]"
        denoted = (content + closer)[:(content + closer).find(closer)]
        nd = tg.normalize_newlines(denoted)
        nc = tg.normalize_newlines(closer)
        # feature: a newline character in the delimiter and a CR in the content, such that the
        # closer (or, since fix 70922de, a closer completed by the real closer) shows up in the
        # content only after CR/CRLF -> LF normalisation
        if ("\n" in delim or "\r" in delim) and "\r" in denoted and (nd + nc).find(nc) != len(nd):
            c2 = dict(case, content=content.replace("\r", "x"))
            if run_bracket(c2)["ok"] is True:
                res["finding"] = KEY_NL_CLOSER
    return res


def gate(tot, classes, extra, tier):
    need = ["kind:quoted", "kind:bracket", "prefix:none", "prefix:r", "prefix:b", "prefix:br",
            "prefix:rb", "py:value", "py:error", "hy:value", "hy:LexException", "feat:cr",
            "feat:esc-nonascii", "early-closer", "closer-at-end", "feat:leading-nl", "delim:empty"]
    missing = [c for c in need if not classes.get(c)]
    if missing:
        return "classes-not-reached:" + ",".join(missing)
    return None
