"""Coordinator: runs one property's check over N worker sub-processes,
confirms violations in a fresh process, attributes them to known findings,
writes evidence, prints the verdict.

Exit codes: 0 held, 1 violation, 2 inconclusive.
"""
import hashlib
import importlib
import json
import os
import shutil
import struct
import subprocess
import sys
import tempfile
import time

VERIF = os.path.dirname(os.path.dirname(os.path.abspath(__file__)))
PY = "/venv/bin/python"
GUARD = "HYLANG_HY_VERIF"


def repo_path():
    return os.path.abspath(os.environ.get("VERIF_REPO", "/repo"))


def child_env(scratch, extra=None, hashseed="0"):
    env = dict(os.environ)
    # variables of the caller's shell that change what Python/hy do must not reach the workers
    for k in list(env):
        if k in ("PYTHONDONTWRITEBYTECODE", "PYTHONOPTIMIZE", "PYTHONWARNINGS", "PYTHONSTARTUP",
                 "PYTHONINSPECT", "PYTHONDEBUG", "PYTHONVERBOSE", "PYTHONDEVMODE", "PYTHONUTF8",
                 "PYTHONIOENCODING", "PYTHONHOME", "PYTHONSAFEPATH", "PYTHONNODEBUGRANGES",
                 "PYTHONINTMAXSTRDIGITS", "PYTHONBREAKPOINT", "PYTHONPROFILEIMPORTTIME",
                 "HYSTARTUP") or k.startswith("HY_"):
            env.pop(k, None)
    env["PYTHONPYCACHEPREFIX"] = os.path.join(scratch, "pycache")
    env["PYTHONPATH"] = os.pathsep.join(
        [repo_path(), VERIF, os.path.join(VERIF, ".deps")])
    env["PYTHONHASHSEED"] = hashseed
    env[GUARD] = "1"
    env["VERIF_SCRATCH"] = scratch
    env["VERIF_REPO"] = repo_path()
    env["PIP_NO_INDEX"] = "1"
    if extra:
        env.update(extra)
    return env


def case_hash(case):
    return hashlib.sha1(
        json.dumps(case, sort_keys=True, default=repr).encode()).hexdigest()


def load_known(pid):
    path = os.path.join(VERIF, "known_findings.json")
    try:
        with open(path) as f:
            data = json.load(f)
    except FileNotFoundError:
        return {}
    out = {}
    for e in data.get("findings", []):
        if e.get("property") == pid and e.get("status") == "known":
            out[e["key"]] = e
    # development aid only: proposals not yet merged into known_findings.json
    extra = os.environ.get("VERIF_KNOWN_EXTRA")
    if extra and os.path.exists(extra) and os.path.getsize(extra) > 0:
        with open(extra) as f:
            for e in json.load(f).get("findings", []):
                if e.get("property") == pid and e.get("status") == "known":
                    out[e["key"]] = e
    return out


def hy_commit():
    try:
        return subprocess.run(
            ["git", "-C", repo_path(), "rev-parse", "--short", "HEAD"],
            capture_output=True, text=True, timeout=20).stdout.strip()
    except Exception:
        return "?"


def write_evidence(pid, doc):
    d = os.path.join(VERIF, "evidence")
    if repo_path() != "/repo":
        # self-validation against a patched scratch copy (tools/selftest.py, seedtest.py):
        # evidence/ only ever describes runs against /repo itself
        d = os.path.join(VERIF, "evidence", "scratch-tree")
    os.makedirs(d, exist_ok=True)
    tmp = os.path.join(d, f".{pid}.json.tmp")
    with open(tmp, "w") as f:
        json.dump(doc, f, indent=1, sort_keys=True, default=repr)
        f.write("\n")
    os.replace(tmp, os.path.join(d, f"{pid}.json"))


def write_replay(pid, case, result, tier, seed):
    d = os.path.join(VERIF, "replays", pid)
    os.makedirs(d, exist_ok=True)
    path = os.path.join(d, case_hash(case)[:16] + ".json")
    with open(path, "w") as f:
        json.dump({"property": pid, "case": case, "result": result,
                   "tier": tier, "seed": seed, "hy_commit": hy_commit()},
                  f, indent=1, default=repr)
    return path


def replay_in_fresh_process(pid, case, scratch, timeout=300):
    """Re-run a single case alone in a fresh process; returns result dict or None."""
    fd, path = tempfile.mkstemp(prefix="case-", suffix=".json", dir=scratch)
    with os.fdopen(fd, "w") as f:
        json.dump({"case": case}, f, default=repr)
    out = path + ".out"
    try:
        subprocess.run(
            [PY, "-m", "hv.worker", "--replay", pid, path, out],
            env=child_env(scratch), cwd=VERIF, timeout=timeout,
            stdout=subprocess.DEVNULL, stderr=subprocess.PIPE)
        with open(out) as f:
            return json.load(f)
    except Exception as e:  # timeout, crash
        return {"ok": None, "why": f"replay failed: {e!r}"}


def main(argv=None):
    import argparse
    ap = argparse.ArgumentParser()
    ap.add_argument("pid")
    ap.add_argument("--tier", default=os.environ.get("VERIF_TIER", "quick"),
                    choices=["quick", "thorough"])
    ap.add_argument("--replay")
    ap.add_argument("--workers", type=int,
                    default=int(os.environ.get("VERIF_WORKERS", "16")))
    args = ap.parse_args(argv)
    pid = args.pid.upper()
    seed = int(os.environ.get("VERIF_SEED", "0") or 0)
    t0 = time.time()

    sys.path.insert(0, VERIF)
    # third-party deps (icontract/deal) are installed on demand, offline
    from hv import deps
    deps.ensure()

    scratch_root = os.environ.get("VERIF_SCRATCH_ROOT") or tempfile.gettempdir()
    scratch = tempfile.mkdtemp(prefix="hyverif-", dir=scratch_root)
    try:
        return _run(pid, args, seed, scratch, t0)
    finally:
        shutil.rmtree(scratch, ignore_errors=True)


def _inconclusive(pid, reason, evidence=None):
    print(f"INCONCLUSIVE property={pid} reason={reason}")
    return 2


def _run(pid, args, seed, scratch, t0):
    tier = args.tier
    env = child_env(scratch)

    # 0. warm-up: compile hy from the working tree into the scratch cache and
    #    verify that `import hy` resolves to the tree under test.
    warm = subprocess.run(
        [PY, "-c",
         "import hy, hy.compiler, hy.core.hy_repr, hy.core.util, hy.pyops, hy.repl;"
         "import hy.core.macros;"
         "print(hy.__file__)"],
        env=env, cwd=VERIF, capture_output=True, text=True, timeout=300)
    if warm.returncode != 0 or not warm.stdout.strip().startswith(repo_path() + os.sep):
        sys.stdout.write(warm.stdout[-2000:])
        sys.stderr.write(warm.stderr[-4000:])
        return _inconclusive(pid, "hy-not-importable-from-tree")

    if args.replay:
        with open(args.replay) as f:
            doc = json.load(f)
        res = replay_in_fresh_process(pid, doc["case"], scratch)
        print(json.dumps({"case": doc["case"], "result": res}, indent=1, default=repr))
        known = load_known(pid)
        if res.get("ok") is False:
            key = res.get("finding")
            if key in known:
                print(f"KNOWN-FINDING: property={pid} {key}: {known[key]['description']}")
                return 0
            print(f"VIOLATION property={pid} replay={args.replay}")
            return 1
        if res.get("ok") is None:
            return _inconclusive(pid, "replay-did-not-complete")
        print("replay: held")
        return 0

    modname = "checks." + pid.lower()
    mod = importlib.import_module(modname)
    nworkers = max(1, min(args.workers, getattr(mod, "MAX_WORKERS", 16)))
    budget = float(os.environ.get("VERIF_BUDGET_S", 0) or 0) or \
        float(mod.BUDGET[tier])

    procs = []
    for s in range(nworkers):
        out = os.path.join(scratch, f"w{s}.jsonl")
        cmd = [PY, "-m", "hv.worker", pid, tier, str(seed), str(s),
               str(nworkers), str(budget), out]
        errf = open(os.path.join(scratch, f"w{s}.err"), "w")
        p = subprocess.Popen(cmd, env=env, cwd=VERIF,
                             stdout=subprocess.DEVNULL, stderr=errf)
        procs.append((s, p, out, errf))

    watchdog = budget * 3 + 120 + float(getattr(mod, "CASE_TIMEOUT", 20))
    deadline = time.time() + watchdog
    worker_fail = []
    for s, p, out, errf in procs:
        try:
            rc = p.wait(timeout=max(1, deadline - time.time()))
        except subprocess.TimeoutExpired:
            p.kill()
            p.wait()
            rc = "watchdog"
        errf.close()
        if rc != 0:
            with open(errf.name) as f:
                tail = f.read()[-3000:]
            worker_fail.append((s, rc, tail))

    # aggregate
    tot = dict(evaluations=0, skipped=0, timeouts=0, errors=0, events=0)
    classes = {}
    samples = []
    viol = []
    herr = []
    extra = {}
    hashes = set()
    finished = 0
    exhausted_all = True
    for s, p, out, errf in procs:
        if not os.path.exists(out):
            continue
        with open(out) as f:
            for line in f:
                try:
                    rec = json.loads(line)
                except ValueError:
                    continue
                k = rec.get("t")
                if k == "harness_error":
                    herr.append(rec)
                elif k == "violation":
                    viol.append(rec)
                elif k == "sample":
                    samples.append(rec["case"])
                elif k == "final":
                    finished += 1
                    for key in tot:
                        tot[key] += rec.get(key, 0)
                    for c, n in rec.get("classes", {}).items():
                        classes[c] = classes.get(c, 0) + n
                    exhausted_all = exhausted_all and rec.get("exhausted", False)
                    for key, v in rec.get("extra", {}).items():
                        merge_extra(extra, key, v)
        hp = out + ".hashes"
        if os.path.exists(hp):
            with open(hp, "rb") as f:
                data = f.read()
            for i in range(0, len(data) - 7, 8):
                hashes.add(data[i:i + 8])

    # confirm violations in a fresh process, attribute to known findings
    known = load_known(pid)
    confirmed, flaky, known_seen = [], [], {}
    seen_cases = set()
    # confirm at most a handful per finding key to bound time
    per_key = {}
    for rec in viol:
        h = case_hash(rec["case"])
        if h in seen_cases:
            continue
        seen_cases.add(h)
        key = rec["result"].get("finding")
        per_key[key] = per_key.get(key, 0) + 1
        if per_key[key] > (3 if key in known else 5):
            if key in known and key in known_seen:
                known_seen[key]["count"] += 1
            continue
        res = replay_in_fresh_process(pid, rec["case"], scratch,
                                      timeout=max(300, 2 * float(getattr(mod, "REPLAY_TIMEOUT", getattr(mod, "CASE_TIMEOUT", 20))) + 60))
        if res.get("ok") is False:
            key = res.get("finding")
            if key in known:
                ks = known_seen.setdefault(key, {"count": 0, "witness": rec["case"]})
                ks["count"] += 1
            else:
                confirmed.append((rec["case"], res))
        else:
            flaky.append((rec["case"], {"flaky": True, "in_worker": rec.get("result"), "alone": res}))

    floor = mod.FLOOR[tier] if isinstance(mod.FLOOR, dict) else mod.FLOOR
    reasons = []
    if worker_fail:
        reasons.append("worker-failed:" + ",".join(f"{s}={rc}" for s, rc, _ in worker_fail))
    if finished < nworkers:
        reasons.append(f"only-{finished}-of-{nworkers}-workers-finished")
    if len(hashes) < floor:
        reasons.append(f"nontrivial-{len(hashes)}-below-floor-{floor}")
    if tot["evaluations"] and tot["timeouts"] > 0.02 * tot["evaluations"]:
        reasons.append(f"timeouts-{tot['timeouts']}")
    if tot["evaluations"] and tot["errors"] > 0:
        reasons.append(f"harness-errors-{tot['errors']}")
    if getattr(mod, "NEEDS_EVENTS", False) and tot["events"] == 0:
        reasons.append("monitor-observed-no-events")
    if flaky:
        reasons.append(f"unconfirmed-violations-{len(flaky)}")
    gate = getattr(mod, "gate", None)
    if gate:
        r = gate(tot, classes, extra, tier)
        if r:
            reasons.append(r)

    for case, info in flaky[:5]:
        # kept for debugging the machinery: a violation seen in a worker that did not
        # reproduce alone in a fresh process (the run is inconclusive, never a violation)
        write_replay(pid, case, info, tier, seed)
    replay_paths = []
    for case, res in confirmed[:10]:
        replay_paths.append(write_replay(pid, case, res, tier, seed))

    wall = time.time() - t0
    cov = {
        "evaluations": tot["evaluations"],
        "distinct_nontrivial": len(hashes),
        "rule": mod.RULE,
        "samples": samples[:6] if samples else [],
        "class_histogram": dict(sorted(classes.items())),
        "skipped_cases": tot["skipped"],
        "case_timeouts": tot["timeouts"],
        "monitor_events": tot["events"],
        "workers": nworkers,
        "floor": floor,
        "known_findings_seen": {k: v["count"] for k, v in known_seen.items()},
        "flaky": len(flaky),
        "inconclusive_reasons": reasons,
        "hy_commit": hy_commit(),
        "repo": repo_path(),
    }
    if getattr(mod, "EXHAUSTIVE", {}).get(tier) and exhausted_all and finished == nworkers:
        cov["exhaustive"] = True
    for k, v in extra.items():
        cov[k] = v if not isinstance(v, set) else sorted(v)
    doc = {
        "property_id": pid, "tier": tier, "seed": seed, "level": mod.LEVEL,
        "coverage": cov,
        "assumptions": list(getattr(mod, "ASSUMPTIONS", [])),
        "wall_s": round(wall, 2),
        "violations": len(confirmed),
    }
    if not cov["samples"]:
        cov["samples"] = ["(no sample recorded)"]
    write_evidence(pid, doc)

    print(f"{pid} tier={tier} seed={seed} evaluations={tot['evaluations']} "
          f"distinct_nontrivial={len(hashes)} skipped={tot['skipped']} "
          f"timeouts={tot['timeouts']} events={tot['events']} wall={wall:.1f}s")
    for k, v in sorted(extra.items()):
        if isinstance(v, (int, float, str)):
            print(f"  {k}: {v}")
    for key, ks in sorted(known_seen.items()):
        print(f"KNOWN-FINDING: property={pid} {key}: {known[key]['description']} "
              f"(seen {ks['count']}x, e.g. {json.dumps(ks['witness'], default=repr)[:300]})")
    for rec in herr[:2]:
        # a bug in the machinery (never a verdict about hy): show it and keep the case
        pth = write_replay(pid, rec["case"], {"harness_error": rec["tb"]}, tier, seed)
        sys.stderr.write(f"--- harness error (case saved to {pth})\n{rec['tb']}\n")
    if confirmed:
        for (case, res), path in zip(confirmed, replay_paths):
            print(f"  why: {str(res.get('why'))[:600]}")
            print(f"VIOLATION property={pid} replay={path}")
        return 1
    if reasons:
        for s, rc, tail in worker_fail[:2]:
            sys.stderr.write(f"--- worker {s} rc={rc}\n{tail}\n")
        return _inconclusive(pid, ";".join(reasons))
    print(f"HELD property={pid}")
    return 0


def merge_extra(extra, key, v):
    """Merge per-worker extra counters: ints add, dicts merge recursively,
    lists are treated as sets (union)."""
    if isinstance(v, bool):
        extra[key] = extra.get(key, False) or v
    elif key in ("lines_total",) or key.startswith("max_"):
        extra[key] = max(extra.get(key, 0), v)
    elif isinstance(v, (int, float)):
        extra[key] = extra.get(key, 0) + v
    elif isinstance(v, dict):
        d = extra.setdefault(key, {})
        for k2, v2 in v.items():
            merge_extra(d, k2, v2)
    elif isinstance(v, list):
        cur = extra.setdefault(key, [])
        for x in v:
            if x not in cur:
                cur.append(x)
        cur.sort(key=repr)
    else:
        extra[key] = v


if __name__ == "__main__":
    sys.exit(main())
