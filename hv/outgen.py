"""Shared generators for the "compiler output" properties C12 / C13 / C14.

* hostile near-miss name pool, injective (after mangling) renaming of gen_prog
  program text, `source_names(text)` (mangled names a program itself uses);
* `TGen` - a template program generator over the constructs that make the
  compiler introduce names (with / try / let / match / comprehensions / while /
  fn / defclass / local macros / import :as / assert / chainc ...). Programs are
  produced with *placeholders* for every user name (`«N»`), so the same
  program can be rendered with hostile names, benign names, Python keywords or
  non-ASCII identifiers (alpha-renaming must not change behaviour);
* `shadow_program` - closed-form programs of nested same-named `let`s;
* `foreign_texts` - Hy sources from the other builders' generators, if present;
* `child_main` - the sub-process side of C13 (compile a batch, print digests).
"""
import ast
import hashlib
import itertools
import json
import marshal
import os
import re
import sys
import types

PH = re.compile("«(\\d+)»")


def ph(i):
    return f"«{i}»"


def subst(tmpl, names):
    return PH.sub(lambda m: names[int(m.group(1))], tmpl)


# ---------------------------------------------------------------------------
# names

NEARMISS = [
    "anon_1", "anon_2", "anon_3", "anon-4", "_anon_1", "_anon_2", "_anon_3", "-anon-5",
    "hy_anon_1", "hy_anon_2", "hy_anon_3", "_hy", "hy_", "_hyanon_1", "_hy1", "_hyx_anon_1",
    "hyx_anon_1", "X_hy_anon_1", "let_x_1", "let_x_2", "_let_x_1", "hy_let_x_1", "let-x-3",
    "exc_e_1", "exc_e_2", "_exc_e_1", "hy_exc_e_2", "local_macro__m", "_local_macro__m",
    "hy_local_macro__m", "gensym_g_1", "_gensym_g_1", "hy_gensym_g_1", "anon", "_anon", "let_", "_let_",
    # digit-suffixed names: name + serial number of one temporary must never read like another's
    "x", "x1", "x11", "x12", "x2", "x21", "v", "v1", "v12", "total", "total1", "total11", "anon_", "anon_11",
]
BENIGN = [f"u{i}" for i in range(160)]
KEYWORDS = ["if", "class", "from", "def", "else", "while", "for", "in", "is", "not", "and", "or", "lambda",
            "pass", "return", "try", "with", "yield", "del", "global", "nonlocal", "import", "as", "assert",
            "break", "continue", "elif", "except", "finally", "raise", "async", "await"]
NONASCII = ["αβγ", "ñ_x", "変数", "naïve", "да", "été", "x́y",
            "λ1", "ångström", "♥v", "café?", "über-x", "Ω", "١x", "k₂"]


def mangle(s):
    from hy.reader.mangling import mangle as m
    return m(s)


def injective(names):
    seen = set()
    out = []
    for n in names:
        try:
            k = mangle(n)
        except Exception:
            continue
        if k in seen or k.startswith("_hy_") or k == "hy" or k.startswith("__"):
            continue
        seen.add(k)
        out.append(n)
    return out


def derived(bases, rng, n=6):
    """near-misses of the names the compiler derives from *user* names"""
    out = []
    for _ in range(n):
        b = mangle(rng.choice(bases))
        k = rng.randint(1, 6)
        out.append(rng.choice([f"let_{b}_{k}", f"_let_{b}_{k}", f"exc_{b}_{k}", f"_exc_{b}_{k}",
                               f"hy_let_{b}_{k}", f"local_macro__{b}", f"_local_macro__{b}",
                               f"hy_local_macro__{b}"]))
    return out


def pick_names(rng, n, style="hostile"):
    """n distinct (after mangling) user names of the given style."""
    if style == "benign":
        return BENIGN[:n]
    if style == "hostile":
        pool = list(NEARMISS)
        rng.shuffle(pool)
        pool = injective(pool)
        base = pool[: max(2, n // 2)]
        pool = injective(base + derived(base, rng, n) + pool[len(base):])
    elif style == "keyword":
        pool = list(KEYWORDS)
        rng.shuffle(pool)
    elif style == "nonascii":
        pool = list(NONASCII)
        rng.shuffle(pool)
        pool = injective(pool)
    elif style == "mixed":
        pool = KEYWORDS[:12] + NONASCII[:8] + NEARMISS[:8]
        rng.shuffle(pool)
        pool = injective(pool)
    else:
        raise ValueError(style)
    i = 0
    while len(pool) < n:
        pool.append(f"zq{i}")
        i += 1
    return pool[:n]


_GP_NAME = re.compile(r"(?<![\w:.*?!-])(tm\d+|[vtcwilpmefa]\d+)(?![\w*?!-])")


def rename_gen_prog(text, rng, style="hostile"):
    """Injective renaming of the variables of a hv.gen_prog program text.
    Returns (text, mapping)."""
    found = list(dict.fromkeys(_GP_NAME.findall(text)))
    names = pick_names(rng, len(found), style)
    mp = dict(zip(found, names))
    if style in ("keyword", "mixed"):
        used = set(names)
        for k in found:                     # function names occur as call heads
            if k[0] == "f" and mp[k] in KEYWORDS and mp[k] not in HEAD_SAFE_KW:
                cand = [x for x in HEAD_SAFE_KW if x not in used]
                mp[k] = cand[0] if cand else "hd" + k
                used.add(mp[k])
    return _GP_NAME.sub(lambda m: mp[m.group(1)], text), mp


def source_names(text):
    """Mangled identifiers the program itself mentions (symbols split at dots,
    keyword names), or None if the text cannot be read."""
    import hy.models as M
    from hy.reader import read_many
    out = set()

    def walk(x):
        if isinstance(x, M.Symbol):
            for part in str(x).split("."):
                if part:
                    try:
                        out.add(mangle(part))
                    except Exception:
                        pass
        elif isinstance(x, M.Keyword):
            if x.name:
                for part in x.name.split("."):
                    try:
                        out.add(mangle(part))
                    except Exception:
                        pass
        elif isinstance(x, M.Sequence):
            for y in x:
                walk(y)
    try:
        for form in read_many(text):
            walk(form)
    except Exception:
        return None
    return out


# ---------------------------------------------------------------------------
# harness objects for template programs

class Point:
    __match_args__ = ("x", "y")

    def __init__(self, x, y):
        self.x, self.y = x, y


def IDENT(x):
    return x


def tmpl_env(tr):
    from hv import gen_prog as G
    env = G.make_env(tr)
    env.update(Point=Point, IDENT=IDENT)
    return env


# ---------------------------------------------------------------------------
# template generator

class TGen:
    """Int-typed programs over name-introducing constructs. Every user name is a
    placeholder; binders are fresh placeholders (no shadowing), so any injective
    renaming preserves the meaning."""

    def __init__(self, rng, max_depth=3, budget=28, opts=()):
        self.rng = rng
        self.max_depth = max_depth
        self.budget = budget
        self.opts = set(opts)
        self.n = 0
        self.ids = itertools.count(1)
        self.feats = set()
        self.modvars = [self.new() for _ in range(4)]
        self.keep = self.modvars[:2]         # bound once at the top, only ever read afterwards
        self.mutable = self.modvars[2:]
        self.inv = []                        # [site id, token]: every event of that site must log this value
        self.readable = list(self.modvars)
        self.assignable = list(self.mutable)
        self.fn_depth = 0
        self.fn_locals = []          # stack of lists: locals of enclosing functions
        self.in_comp = 0
        self.in_class = 0
        self.kw = self.new()         # a keyword-argument name
        self.heads = set()           # placeholders that occur as the head of a call form

    def newhead(self):
        p = self.new()
        self.heads.add(self.n - 1)
        return p

    def new(self):
        self.n += 1
        return ph(self.n - 1)

    def k(self):
        return next(self.ids)

    def lit(self):
        return str(self.rng.randint(-3, 9))

    def var(self):
        return self.rng.choice(self.readable) if self.readable else self.lit()

    def leaf(self):
        return self.var() if self.rng.random() < 0.55 else self.lit()

    def stmtwrap(self, e):
        if not self.assignable:
            return f"(L {self.k()} {e})"
        t = self.rng.choice(self.assignable)
        return f"(do (setv {t} {e}) (L {self.k()} {t}))"

    # -- expressions (int valued)
    def E(self, d):
        rng = self.rng
        self.budget -= 1
        if d >= self.max_depth or self.budget <= 0:
            x = self.leaf()
            return f"(L {self.k()} {x})" if rng.random() < 0.5 else x
        forms = [("leaf", 2), ("L", 3), ("stmtwrap", 3), ("bin", 2), ("if", 2), ("with", 4), ("try", 4),
                 ("let", 4), ("match", 4), ("comp", 4), ("emptycomp", 1), ("dictunpack", 1), ("fn", 3),
                 ("defn", 2), ("while", 2), ("for", 1), ("class", 2), ("localmacro", 1), ("importas", 1),
                 ("decl", 2 if (self.fn_depth or True) else 0), ("assert", 1), ("chainc", 1), ("andor", 2),
                 ("cond", 1), ("setx", 1 if self.assignable and not self.in_comp else 0), ("F", 2), ("quote", 1),
                 ("fstr", 1), ("hyI", 1), ("del", 1), ("yield", 1), ("require", 1), ("unpack", 1),
                 ("return", 1), ("deco", 1), ("lit", 3 if "lits" in self.opts else 0),
                 ("fstr2", 3 if "fstr" in self.opts else 0), ("attrkw", 3 if "kwattr" in self.opts else 0),
                 ("annot", 4 if "annot" in self.opts else 0)]
        kind = rng.choices([f for f, _ in forms], [w for _, w in forms])[0]
        D = d + 1
        m = getattr(self, "e_" + kind)
        self.feats.add(kind)
        return m(D)

    def e_leaf(self, D):
        return self.leaf()

    def e_L(self, D):
        return f"(L {self.k()} {self.E(D)})"

    def e_stmtwrap(self, D):
        return self.stmtwrap(self.E(D))

    def e_bin(self, D):
        return f"({self.rng.choice('+-*')} {self.E(D)} {self.E(D)})"

    def e_if(self, D):
        return f"(if {self.C(D)} {self.E(D)} {self.E(D)})"

    def C(self, D):
        r = self.rng.random()
        if r < 0.4:
            return f"(< {self.E(D)} {self.lit()})"
        if r < 0.7:
            return self.stmtwrap(f"(< {self.leaf()} {self.lit()})") if not self.in_comp else f"(> {self.E(D)} 0)"
        return self.E(D)

    def body(self, D, n=None):
        n = self.rng.randint(0, 1) if n is None else n
        return " ".join([self.S(D) for _ in range(n)] + [self.E(D)])

    def scoped(self, names, fn):
        """run fn() with `names` readable+assignable"""
        sr, sa = list(self.readable), list(self.assignable)
        self.readable += names
        if not self.in_comp:
            self.assignable += names
        try:
            return fn()
        finally:
            self.readable, self.assignable = sr, sa

    def e_with(self, D):
        rng = self.rng
        r = rng.random()
        k1 = self.k()
        if r < 0.3:
            return f"(with [(CM {k1})] {self.body(D)})"
        b = self.new()
        if r < 0.5:
            return f"(with [{b} (CM {k1})] " + self.scoped([b], lambda: self.body(D)) + ")"
        if r < 0.7 and self.assignable:
            # the `as` variable is the user's: it still holds the manager's value after the form
            t, kk = rng.choice(self.assignable), self.k()
            self.inv.append([kk, ["int", repr(k1)]])
            self.readable.append(b)
            try:
                wb = self.body(D)
            finally:
                self.readable.remove(b)
            return f"(do (setv {t} (with [{b} (CM {k1})] {wb})) (L {kk} {b}) {t})"
        b2, k2 = self.new(), self.k()
        mid = self.stmtwrap(str(k2)) if not self.in_comp else str(k2)
        return (f"(with [{rng.choice(['_', b])} (CM {k1}) {b2} (CM {mid})] "
                + self.scoped([b2], lambda: self.body(D)) + ")")

    def e_try(self, D):
        rng = self.rng
        x = rng.choice(["EA", "EB"])
        kk = self.k()
        guard = f"(when {self.C(D)} (raise ({x} {kk}))) " if rng.random() < 0.6 else ""
        s = f"(try {guard}{self.body(D)}"
        r = rng.random()
        if r < 0.8:
            b = self.new()
            ty = rng.choice([x, f"[{x}]", "[EA EB]"])
            if rng.random() < 0.7:
                # the handler variable holds an exception: read its argument
                s += f" (except [{b} {ty}] (L {self.k()} (get {b}.args 0)) {self.body(D, 0)})"
            else:
                s += f" (except [{ty}] {self.body(D, 0)})"
        if rng.random() < 0.3:
            s += f" (except [] {self.E(D)})" if "(except [" in s[-60:] or rng.random() < 0.5 else ""
        if rng.random() < 0.3 and "(except" in s:
            s += f" (else {self.body(D, 0)})"
        if rng.random() < 0.4 or "(except" not in s:
            s += f" (finally {self.S(D)})"
        return s + ")"

    def e_let(self, D):
        rng = self.rng
        names = [self.new() for _ in range(rng.randint(1, 3))]
        if len(names) >= 2 and rng.random() < 0.3:
            bind = f"[{' '.join(names)}] [{' '.join(self.E(D) for _ in names)}]"
            return f"(let [{bind}] " + self.scoped(names, lambda: self.body(D)) + ")"
        parts = []
        sr, sa = list(self.readable), list(self.assignable)
        try:
            for nm in names:
                parts.append(f"{nm} {self.E(D)}")
                self.readable.append(nm)
                if not self.in_comp:
                    self.assignable.append(nm)
            b = self.body(D)
        finally:
            self.readable, self.assignable = sr, sa
        return f"(let [{' '.join(parts)}] {b})"

    def e_match(self, D):
        rng = self.rng
        kind = rng.choice(["int", "list", "dict", "point"])
        subj = {"int": self.E(D), "list": f"[{self.E(D)} {self.E(D)} {self.lit()}]",
                "dict": '{"k" ' + self.E(D) + ' "j" ' + self.lit() + "}",
                "point": f"(Point {self.E(D)} {self.lit()})"}[kind]
        clauses = []
        ncl = rng.randint(1, 3)
        for ci in range(ncl):
            caps = []

            def cap():
                c = self.new()
                caps.append(c)
                return c
            if kind == "int":
                pat = rng.choice([self.lit(), None, "(| 1 2 3)"])
                if pat is None:          # a bare capture is irrefutable: keep it reachable-safe
                    pat = cap() if ci == ncl - 1 else f"(| 4 5) :as {cap()}"
            elif kind == "list":
                pat = rng.choice(["a", "b", "c"])
                pat = {"a": lambda: f"[{cap()} {cap()} {cap()}]", "b": lambda: f"[{cap()} #* {cap()}]",
                       "c": lambda: f"[{cap()} _ _] :as {cap()}"}[pat]()
            elif kind == "dict":
                pat = rng.choice(["a", "b"])
                pat = {"a": lambda: '{"k" ' + cap() + "}",
                       "b": lambda: '{"k" ' + cap() + " #** " + cap() + "}"}[pat]()
            else:
                pat = rng.choice(["a", "b", "c"])
                pat = {"a": lambda: f"(Point {cap()} {cap()})", "b": lambda: f"(Point :x {cap()} :y _)",
                       "c": lambda: f"(Point :y {cap()}) :as {cap()}"}[pat]()
            ints = [c for c in caps]
            if kind == "list" and "#*" in pat:
                ints = caps[:1]
            elif kind == "list" and ":as" in pat:
                ints = caps[:1]
            elif kind == "dict" and "#**" in pat:
                ints = caps[:1]
            elif kind == "point" and ":as" in pat:
                ints = caps[:1]
            guard = ""
            if rng.random() < 0.35:
                guard = " :if " + self.scoped(ints, lambda: self.C(D))
            clauses.append(f"{pat}{guard} " + self.scoped(ints, lambda: self.E(D)))
        irrefutable_last = kind == "int" and not clauses[-1].startswith(("(", "-")) and not clauses[-1][0].isdigit() \
            and " :if " not in clauses[-1]
        if rng.random() < 0.6 and not irrefutable_last:
            clauses.append(f"_ {self.E(D)}")
        m = f"(match {subj} " + " ".join(clauses) + ")"
        return f"(or {m} 0)"

    def e_comp(self, D):
        rng = self.rng
        form = rng.choice(["lfor", "lfor", "sfor", "dfor", "gfor"])
        x = self.new()
        src = rng.choice([f"(range {rng.randint(0, 3)})", f"[{self.E(D)} {self.lit()}]"])
        self.in_comp += 1
        sr, sa = list(self.readable), list(self.assignable)
        outer_assignable = [a for a in sa]
        try:
            self.readable.append(x)
            self.assignable = []
            parts = [f"{x} {src}"]
            if rng.random() < 0.4:
                y = self.new()
                parts.append(f":setv {y} {self.E(D)}")
                self.readable.append(y)
            if rng.random() < 0.4:
                parts.append(f":if {self.C(D)}")
            leak = []
            if rng.random() < 0.6 and outer_assignable and not self.in_class and self.in_comp == 1:
                # assignments in the body leak to the enclosing scope (several names)
                leak = rng.sample(outer_assignable, min(len(outer_assignable), rng.randint(1, 3)))
                parts.append(":do (setv " + " ".join(f"{v} (+ {x} {self.lit()})" for v in leak) + ")")
                self.feats.add("comp-leak")
            elt = self.E(D)
            if rng.random() < 0.5:
                elt = f"(do (L {self.k()} {x}) {elt})"        # forces the generator-function strategy
        finally:
            self.readable, self.assignable = sr, sa
            self.in_comp -= 1
        cl = " ".join(parts)
        if form == "dfor":
            return f"(SUM (dfor {cl} {x} {elt}))"
        if form == "gfor":
            return f"(SUM (list (gfor {cl} {elt})))"
        return f"(SUM (list ({form} {cl} {elt})))"

    def e_emptycomp(self, D):
        form = self.rng.choice(["lfor", "sfor", "gfor", "dfor"])
        self.feats.add("empty-" + form)
        if form == "dfor":
            return "(len (dfor #** {1 2}))"
        return f"(len (list ({form} {self.leaf()})))"

    def e_dictunpack(self, D):
        x = self.new()
        self.feats.add("dfor-unpack")
        return f"(SUM (dfor {x} (range {self.rng.randint(0, 3)}) #** {{{x} {self.lit()}}}))"

    def fn_parts(self, D):
        """(lambda list, body text, call args)"""
        rng = self.rng
        ps = [self.new() for _ in range(rng.randint(0, 2))]
        loc = self.new()
        sr, sa, sc, scl = list(self.readable), list(self.assignable), self.in_comp, self.in_class
        self.readable = [r for r in self.readable] + ps
        self.assignable = list(ps)
        self.fn_depth += 1
        self.fn_locals.append(ps + [loc])
        self.in_comp = 0
        self.in_class = 0
        try:
            init = f"(setv {loc} {self.E(D)})"
            self.readable.append(loc)
            self.assignable.append(loc)
            body = init + " " + self.body(D)
        finally:
            self.readable, self.assignable, self.in_comp, self.in_class = sr, sa, sc, scl
            self.fn_depth -= 1
            self.fn_locals.pop()
        ll = list(ps)
        args = [self.E(D) for _ in ps]
        if ps and rng.random() < 0.3:
            ll[-1] = f"[{ps[-1]} {self.lit()}]"
            if rng.random() < 0.5:
                args.pop()
        return " ".join(ll), body, " ".join(args)

    def e_fn(self, D):
        ll, body, args = self.fn_parts(D)
        return f"((fn [{ll}] {body}) {args})".replace(" )", ")")

    def e_defn(self, D):
        f = self.newhead()
        ll, body, args = self.fn_parts(D)
        return f"(do (defn {f} [{ll}] {body}) ({f} {args}))".replace(" )", ")")

    def e_deco(self, D):
        f = self.newhead()
        ll, body, args = self.fn_parts(D)
        return f"(do (defn [IDENT] {f} [{ll}] {body}) ({f} {args}))".replace(" )", ")")

    def e_return(self, D):
        f = self.newhead()
        ll, body, args = self.fn_parts(D)
        return f"(do (defn {f} [{ll}] (when {self.lit()} (return (do {body}))) 0) ({f} {args}))".replace(" )", ")")

    def e_yield(self, D):
        return f"(SUM (list ((fn [] (yield {self.leaf()}) (yield {self.lit()})))))"

    def e_while(self, D):
        if not self.assignable:
            return self.E(D)
        w = self.new()
        n = self.rng.randint(0, 3)
        cond = self.rng.choice([f"(do (setv {w} (+ {w} 1)) (<= {w} {n}))",
                                f"(do (setv {w} (+ {w} 1)) (L {self.k()} (<= {w} {n})))"])
        self.readable.append(w)          # readable, never assignable: the loop must terminate
        try:
            body = self.S(D)
        finally:
            self.readable.remove(w)
        els = f" (else {self.S(D)})" if self.rng.random() < 0.3 else ""
        return f"(do (setv {w} 0) (while {cond} {body}{els}) {w})"

    def e_for(self, D):
        if self.in_comp:
            return self.E(D)
        x = self.new()
        self.readable.append(x)
        try:
            body = self.S(D)
        finally:
            self.readable.remove(x)
        return f"(do (for [{x} (range {self.rng.randint(0, 3)})] {body}) {self.leaf()})"

    def e_class(self, D):
        rng = self.rng
        if self.in_comp:
            return self.E(D)
        K, A, M, P = self.newhead(), self.new(), self.new(), self.new()
        sr, sa = list(self.readable), list(self.assignable)
        self.in_class += 1
        try:
            self.assignable = []
            av = self.E(D)
        finally:
            self.readable, self.assignable = sr, sa
            self.in_class -= 1
        # method body: reads its parameter and module-level names only
        sr, sa, sc = list(self.readable), list(self.assignable), self.in_comp
        self.readable = list(self.modvars) + [P] if self.fn_depth == 0 else [P]
        self.assignable = [P]
        self.fn_depth += 1
        self.fn_locals.append([P])
        try:
            mb = self.body(D)
        finally:
            self.readable, self.assignable, self.in_comp = sr, sa, sc
            self.fn_depth -= 1
            self.fn_locals.pop()
        return (f"(do (defclass {K} [] (setv {A} {av}) (defn {M} [self {P}] {mb})) "
                f"(+ (. {K} {A}) (.{M} ({K}) {self.lit()})))")

    def e_localmacro(self, D):
        f, mac, x = self.newhead(), self.newhead(), self.new()
        return f"(do (defn {f} [] (defmacro {mac} [{x}] `(+ ~{x} 1)) ({mac} {self.lit()})) ({f}))"

    def e_importas(self, D):
        b = self.newhead()
        if self.rng.random() < 0.5:
            return f"(do (import math :as {b}) ({b}.floor 2.5))"
        return f"(do (import math [floor :as {b}]) ({b} 3.5))"

    def e_decl(self, D):
        """nonlocal / global declarations with several names"""
        rng = self.rng
        f = self.newhead()
        if self.fn_depth and self.fn_locals[-1] and not self.in_comp and not self.in_class:
            cands = [v for v in self.fn_locals[-1] if v in self.assignable]
            if cands:
                names = rng.sample(cands, min(len(cands), rng.randint(1, 3)))
                extra = []
                if self.fn_depth and rng.random() < 0.5:
                    extra = rng.sample(self.mutable, rng.randint(1, 2))    # resolved at module level
                decl = names + extra
                rng.shuffle(decl)
                self.feats.add("nonlocal")
                if extra:
                    self.feats.add("nonlocal-mixed")
                asg = " ".join(f"(setv {v} (+ {v} 1))" for v in decl)
                return f"(do (defn {f} [] (nonlocal {' '.join(decl)}) {asg} {decl[0]}) ({f}))"
        names = rng.sample(self.mutable, rng.randint(1, 2))
        self.feats.add("global")
        asg = " ".join(f"(setv {v} (+ {v} 1))" for v in names)
        return f"(do (defn {f} [] (global {' '.join(names)}) {asg} {names[0]}) ({f}))"

    def e_assert(self, D):
        self.feats.add("assert-stmts")
        if not self.assignable:
            return f"(do (assert (> {self.leaf()} -100)) {self.lit()})"
        t = self.rng.choice(self.assignable)
        return f"(do (assert (do (setv {t} {self.E(D)}) (> {t} -1000)) \"m\") {t})"

    def e_chainc(self, D):
        return f"(if (chainc {self.lit()} < {self.E(D)} <= {self.E(D)}) 1 0)"

    def e_andor(self, D):
        return f"({self.rng.choice(['and', 'or'])} {self.E(D)} {self.E(D)} {self.E(D)})"

    def e_cond(self, D):
        return f"(cond {self.C(D)} {self.E(D)} {self.C(D)} {self.E(D)} True {self.E(D)})"

    def e_setx(self, D):
        return f"(setx {self.rng.choice(self.assignable)} {self.E(D)})"

    def e_F(self, D):
        return f"(F {self.k()} {self.E(D)} :{self.kw} {self.E(D)})"

    def e_unpack(self, D):
        return f"(F {self.k()} #* [{self.E(D)} {self.lit()}] #** {{\"kw\" {self.E(D)}}})"

    def e_quote(self, D):
        return f"(len '({self.var()} {self.new()} 1))"

    def e_fstr(self, D):
        v = self.var()
        return f"(len f\"{{{v}}}-{{{v} !r :>{{{self.stmtwrap('4')}}}}}\")"

    def e_hyI(self, D):
        return f"(hy.I.math.floor {self.E(D)})"

    def e_del(self, D):
        if self.in_comp or self.in_class:
            return self.E(D)
        t = self.new()
        return f"(do (setv {t} {self.E(D)}) (del {t}) {self.lit()})"

    def e_require(self, D):
        b = self.newhead()
        return f"(do (require hy.core.macros [when :as {b}]) (or ({b} {self.C(D)} {self.E(D)}) 0))"

    # --- C14 extras -------------------------------------------------------
    LITS = ["1.5", "-2.25", "1e10", "1e-7", "Inf", "-Inf", "NaN", "-0.0", "0.0", "1e400", "-1e400", "5j", "-5j",
            "1+2j", "1-2j", "-1.5+0.5j", "NaN+5j", "1+Infj", "Inf-Infj", "0j", "1_000", "0x1F", "0o17", "0b101",
            "-7", "123456789012345678901234567890", "-0.0+1j", "0-0j", "1e-400", "2.5e-3", "True", "False", "None",
            '"s"', '"a\\"b\'c"', '"\\n\\t\\\\"', '"é☃"', 'b"x\\x00\\xff"', '"\\ud800"', '""', "...",
            "#(1 2)", "#()", "#{}", "#{1 2}", "[]", "{}", '{"a" 1}', "3/4", ":kw", "-1e10", "5+NaNj"]

    def litx(self):
        return self.rng.choice(self.LITS)

    def e_lit(self, D):
        rng = self.rng
        a, b = self.litx(), self.litx()
        r = rng.random()
        if r < 0.35:
            return f"(do (L {self.k()} {a}) {self.lit()})"
        if r < 0.5:
            return f"(do (L {self.k()} [{a} #({b} {self.litx()})]) {self.lit()})"
        if r < 0.65:
            num = rng.choice(["-1", "-2", "-1.5", "2", "-1j", "3", "-0.0", "1e400", "-7"])
            op = rng.choice(["**", "**", "*", "-", "/", "//", "%"])
            return f"(do (L {self.k()} (try ({op} {num} {rng.choice(['2', '-2', '0.5', '3'])}) (except [Exception] 0))) {self.lit()})"
        if r < 0.8:
            num = rng.choice(["-1", "-2.5", "7", "-1j", "1e3", "-0.0"])
            at = rng.choice(["real", "imag", "conjugate", "__class__.__name__"])
            call = "(" + f".{at} {num}" + ")" if at == "conjugate" else f"(. {num} {at})"
            return f"(do (L {self.k()} {call}) {self.lit()})"
        if r < 0.9:
            return f"(do (L {self.k()} (- {a})) {self.lit()})" if a[0].isdigit() or a[0] == "-" and a[1:2].isdigit() \
                else f"(do (L {self.k()} (not {a})) {self.lit()})"
        return f"(do (L {self.k()} '[{a} {b}]) {self.lit()})"

    FS_LIT = ["a", "'", '\\"', "\\\\", "\\n", "{{", "}}", " ", "é", "x=", "%", "#"]

    def fs_field(self, D, depth=0):
        rng = self.rng
        e = rng.choice([self.var(), self.lit(), '"q"', "\"'\"", f"(+ {self.var()} 1)", '"a\\"b"',
                        "[1 \"x\"]", "1.5", '{"k" 1}'])
        if depth < 1 and rng.random() < 0.25:
            e = 'f"<' + self.fs_field(D, depth + 1) + '>"'
        s = "{" + e
        if rng.random() < 0.25:
            s += " ="
        if rng.random() < 0.4:
            s += " !" + rng.choice("rsa")
        if rng.random() < 0.5:
            spec = rng.choice([">5", "<4", "^7", "", "*>6"])
            if rng.random() < 0.4:
                spec = rng.choice([">", "<", "^"]) + "{" + rng.choice(["4", self.stmtwrap("5") if depth == 0 else "5"]) + "}"
            s += " :" + spec
        return s + "}"

    def e_fstr2(self, D):
        rng = self.rng
        parts = []
        for _ in range(rng.randint(1, 4)):
            parts.append(rng.choice(self.FS_LIT) if rng.random() < 0.45 else self.fs_field(D))
        body = "".join(parts)
        if rng.random() < 0.2:
            return f"(do (L {self.k()} #[f[{body.replace(chr(92) + chr(34), chr(34))}]f]) {self.lit()})"
        return f"(do (L {self.k()} f\"{body}\") {self.lit()})"

    def e_attrkw(self, D):
        """user names as attributes and keyword arguments"""
        rng = self.rng
        a, b = self.new(), self.new()
        r = rng.random()
        if r < 0.2:
            # the name as a string constant and as a quoted symbol
            o = self.new()
            return (f"(do (setv {o} (Point 1 2)) (setattr {o} (hy.mangle \"{a}\") {self.E(D)}) "
                    f"(L {self.k()} [(str '{a}) \"{a}\" '{b} :{b}]) (getattr {o} (hy.mangle \"{a}\")))")
        if r < 0.4:
            o = self.new()
            return (f"(do (setv {o} (Point 1 2)) (setv {o}.{a} {self.E(D)}) (setv (. {o} {b}) {self.lit()}) "
                    f"(+ {o}.{a} (. {o} {b})))")
        if r < 0.7:
            f = self.newhead()
            return f"(do (defn {f} [{a} * {b}] (+ {a} {b})) ({f} :{a} {self.E(D)} :{b} {self.lit()}))"
        f = self.newhead()
        return (f"(do (defn {f} [#** {a}] (L {self.k()} (sorted (.items {a})))) ({f} :{b} {self.lit()} :{self.kw} 2) "
                f"{self.lit()})")

    def e_annot(self, D):
        """annotated parameters of every kind on fn (lambda path and def path) and defn"""
        rng = self.rng
        f, a, b, c, va, kw = self.newhead(), self.new(), self.new(), self.new(), self.new(), self.new()

        def ann():
            r = rng.random()
            if r < 0.4:
                return f"#^ (L {self.k()} {rng.choice(['int', 'str', 'dict'])}) "
            return "#^ " + rng.choice(["int", "str", '"note"', "(get [int] 0)"]) + " "
        mode = rng.choice(["only-star", "only-kw", "only-star-kw", "mixed", "mixed", "plain-only", "ret-only"])
        p_plain = mode in ("mixed", "plain-only")
        p_star = mode in ("only-star", "only-star-kw") or (mode == "mixed" and rng.random() < 0.5)
        p_kw = mode in ("only-kw", "only-star-kw") or (mode == "mixed" and rng.random() < 0.5)
        ret = ann() if (mode == "ret-only" or (mode == "mixed" and rng.random() < 0.3)) else ""
        ll, uses, call = [], [a], [self.lit()]
        ll.append((ann() if p_plain and rng.random() < 0.7 else "") + a)
        if rng.random() < 0.5:
            ll.append((ann() if p_plain and rng.random() < 0.6 else "") + f"[{b} {self.lit()}]")
            uses.append(b)
        has_star = rng.random() < 0.7 or mode in ("only-star", "only-star-kw")
        if has_star:
            ll.append((ann() if p_star else "") + f"#* {va}")
            uses.append(f"(len {va})")
            call += [self.lit(), self.lit()][: rng.randint(0, 2)] if len(ll) == 2 else []
        elif rng.random() < 0.5:
            ll.append("*")
            ll.append((ann() if p_plain and rng.random() < 0.6 else "") + f"[{c} {self.lit()}]")
            uses.append(c)
        has_kw = rng.random() < 0.6 or mode in ("only-kw", "only-star-kw")
        if has_kw:
            ll.append((ann() if p_kw else "") + f"#** {kw}")
            uses.append(f"(len {kw})")
            if rng.random() < 0.6:
                call.append(f":{self.kw} {self.lit()}")
        expr = "(+ " + " ".join(uses) + ")"
        kind = rng.choice(["lambda", "lambda", "fn-def", "defn"])
        self.feats.add("annot-" + mode)
        self.feats.add("annot-" + kind)
        lam = " ".join(ll)
        if kind == "lambda":
            d = f"(setv {f} (fn {ret}[{lam}] {expr}))"
        elif kind == "fn-def":
            d = f"(setv {f} (fn {ret}[{lam}] (setv {a} (+ {a} 0)) {expr}))"
        else:
            d = f"(defn {ret}{f} [{lam}] {expr})"
        return (f"(do {d} (L {self.k()} (sorted (.keys (. {f} __annotations__)))) "
                f"({f} {' '.join(call)}))")

    # -- statements
    def S(self, d):
        rng = self.rng
        self.budget -= 1
        if d >= self.max_depth or self.budget <= 0 or not self.assignable:
            return f"(L {self.k()} {self.leaf()})"
        r = rng.random()
        D = d + 1
        if r < 0.35:
            return f"(setv {rng.choice(self.assignable)} {self.E(D)})"
        if r < 0.45 and len(self.assignable) >= 2:
            a, b = rng.sample(self.assignable, 2)
            return f"(setv [{a} {b}] [{self.E(D)} {self.lit()}])"
        if r < 0.55:
            return f"(+= {rng.choice(self.assignable)} {self.E(D)})"
        return self.E(D)

    def program(self):
        rng = self.rng
        vals = [rng.randint(0, 5) for _ in self.modvars]
        init = "(setv " + " ".join(f"{v} {x}" for v, x in zip(self.modvars, vals)) + ")"
        forms = [self.S(1) for _ in range(rng.randint(0, 2))]
        last = self.E(1)
        lines = [init] + forms + [f"(setv RESULT {last})", "(setv FINAL [" + " ".join(self.modvars) + "])"]
        return "\n".join(lines), self.n, sorted(self.feats), vals[:len(self.keep)], self.inv, sorted(self.heads)


def gen_template(rng, opts=(), max_depth=3, budget=28):
    """{"tmpl": text with placeholders, "n": number of placeholders, "feats": [...],
    "keep": expected final values of the first len(keep) FINAL entries (never assigned),
    "inv": [[site, token], ...] closed-form site invariants}"""
    g = TGen(rng, max_depth=max_depth, budget=budget, opts=opts)
    tmpl, n, feats, keep, inv, heads = g.program()
    return {"tmpl": tmpl, "n": n, "feats": feats, "keep": keep, "inv": inv, "heads": heads}


HEAD_SAFE_KW = ["class", "def", "from", "elif", "pass", "as", "async", "lambda"]


def names_for(rng, t, style):
    """names for a template; placeholders in call-head position never get a keyword that is a
    Hy special form or core macro (the program would mean something else)"""
    names = pick_names(rng, t["n"], style)
    if style in ("keyword", "mixed"):
        safe = [k for k in HEAD_SAFE_KW]
        rng.shuffle(safe)
        used = set(names)
        for h in t.get("heads", ()):
            if names[h] in KEYWORDS and names[h] not in HEAD_SAFE_KW:
                cand = [k for k in safe if k not in used]
                names[h] = cand[0] if cand else f"hd{h}"
                used.add(names[h])
    return names


# ---------------------------------------------------------------------------
# closed-form programs: nested `let`s (and functions) binding the *same* name

def shadow_program(rng, depth=None):
    """Returns (template text with one placeholder name, expected [[k, value], ...])."""
    depth = depth or rng.randint(2, 4)
    ids = itertools.count(1)
    N = ph(0)
    consts = itertools.count(10)
    exp = []

    def level(d, cur):
        """text of forms evaluated where N == cur; appends expected events"""
        out = []
        k = next(ids)
        out.append(f"(L {k} {N})")
        exp.append([k, ["int", repr(cur)]])
        if d < depth:
            c = next(consts)
            kind = rng.choice(["let", "let", "fnlet", "letfn", "trylet", "withlet"])
            inner_first = c
            if kind == "let":
                inner = level(d + 1, inner_first)
                out.append(f"(let [{N} {c}] {inner})")
            elif kind == "fnlet":
                inner = level(d + 1, inner_first)
                out.append(f"((fn [] (let [{N} {c}] {inner})))")
            elif kind == "letfn":
                inner = level(d + 1, inner_first)
                out.append(f"(let [{N} {c}] ((fn [] {inner})))")
            elif kind == "trylet":
                inner = level(d + 1, inner_first)
                out.append(f"(try (let [{N} {c}] {inner}) (finally None))")
            else:
                inner = level(d + 1, inner_first)
                out.append(f"(with [(CM 0)] (let [{N} {c}] {inner}))")
                # CM logs enter/exit: insert them around the inner events
        k2 = next(ids)
        out.append(f"(L {k2} {N})")
        exp.append([k2, ["int", repr(cur)]])
        return " ".join(out)

    c0 = next(consts)
    text = f"(let [{N} {c0}] {level(1, c0)})"
    return text, exp


def rebind_program(rng):
    """Closed-form program: ONE `let` binds the same name 2-4 times (directly or through an
    unpacking target) with closures and reads in between; every binding is a distinct
    variable, so a closure made between two bindings keeps seeing the earlier one.
    Returns (template, number of placeholders, expected events)."""
    ids = itertools.count(1)
    N, M = ph(0), ph(1)
    nph = [2]

    def fresh():
        nph[0] += 1
        return ph(nph[0] - 1)
    cells = {}                      # name -> current value
    binds, after, exp = [], [], []
    consts = itertools.count(10)
    nreb = rng.randint(2, 4)
    cells[N] = next(consts)
    binds.append(f"{N} {cells[N]}")
    if rng.random() < 0.4:
        cells[M] = next(consts)
        binds.append(f"{M} {cells[M]}")
    for r in range(nreb):
        # things created between two bindings of N
        for _ in range(rng.randint(1, 2)):
            kind = rng.choice(["closure", "closure", "read", "closure2"])
            g, k = fresh(), next(ids)
            if kind == "closure" or (kind == "closure2" and M not in cells):
                binds.append(f"{g} (fn [] {N})")
                after.append((k, f"(L {k} ({g}))", ["int", repr(cells[N])]))
            elif kind == "closure2":
                binds.append(f"{g} (fn [] [{N} {M}])")
                after.append((k, f"(L {k} ({g}))", ["list", repr([cells[N], cells[M]])]))
            else:
                binds.append(f"{g} (L {k} {N})")
                exp.append([k, ["int", repr(cells[N])]])
        if r == nreb - 1:
            break
        how = rng.choice(["const", "inc", "unpack"]) if M in cells else rng.choice(["const", "inc"])
        if how == "const":
            v = next(consts)
            binds.append(f"{N} {v}")
            cells[N] = v
        elif how == "inc":
            binds.append(f"{N} (+ {N} 100)")
            cells[N] = cells[N] + 100
        else:
            binds.append(f"[{M} {N}] [(* {N} 10) (* {M} 10)]")
            cells[N], cells[M] = cells[M] * 10, cells[N] * 10
    k = next(ids)
    body = " ".join(t for _, t, _ in after) + f" (L {k} {N})"
    exp += [[kk, tok] for kk, _, tok in after] + [[k, ["int", repr(cells[N])]]]
    text = "(let [" + " ".join(binds) + f"] {body})"
    w = rng.random()
    if w < 0.4:
        f = fresh()
        text = f"(defn {f} [] {text})\n({f})"
    elif w < 0.55:
        text = f"((fn [] {text}))"
    return text, nph[0], exp


def nested_except_program(rng):
    """Closed-form program: try forms nested inside except handlers (depth 2-3) that bind the
    SAME handler variable (or different ones, as control); the inner handler fires or not;
    every outer handler reads its variable before and after the inner try (log / return /
    re-raise :from). Returns (template, number of placeholders, expected events)."""
    ids = itertools.count(1)
    consts = itertools.count(20)
    depth = rng.randint(2, 3)
    same = rng.random() < 0.7
    nph = [1]
    exp = []

    def name_for(d):
        if same or (d > 0 and rng.random() < 0.3):
            return ph(0)
        nph[0] += 1
        return ph(nph[0] - 1)

    def level(d):
        v = next(consts)
        ty = "EA" if d % 2 == 0 else "EB"
        n = name_for(d)
        k1 = next(ids)
        exp.append([k1, ["int", repr(v)]])
        inner = ""
        if d + 1 < depth:
            if rng.random() < 0.75:
                inner = " " + level(d + 1)                      # the inner handler fires
            else:
                n2, k = name_for(d + 1), next(ids)                 # inner try completes normally
                exp.append([k, ["int", "0"]])
                inner = f" (try (L {k} 0) (except [{n2} {'EB' if ty == 'EA' else 'EA'}] (get {n2}.args 0)))"
        k2 = next(ids)
        after = rng.choice(["log", "log", "from", "ret"])
        if after == "from":
            k3, w = next(ids), next(consts)
            exp.append([k2, ["int", repr(v)]])
            exp.append([k3, ["int", repr(v)]])
            tail = (f"(L {k2} (get {n}.args 0)) (try (raise (ValueError {w}) :from {n}) "
                    f"(except [ve ValueError] (L {k3} (get ve.__cause__.args 0))))")
        elif after == "ret":
            exp.append([k2, ["int", repr(v)]])
            tail = f"(L {k2} ((fn [] (get {n}.args 0))))"
        else:
            exp.append([k2, ["int", repr(v)]])
            tail = f"(L {k2} (get {n}.args 0))"
        return f"(try (raise ({ty} {v})) (except [{n} {ty}] (L {k1} (get {n}.args 0)){inner} {tail}))"

    text = level(0)
    w = rng.random()
    if w < 0.6:
        nph[0] += 1
        f = ph(nph[0] - 1)
        text = f"(defn {f} [] {text})\n({f})"
    elif w < 0.75:
        text = f"((fn [] {text}))"
    return text, nph[0], exp


def digit_program(rng):
    """Closed-form program with MANY simultaneously live let bindings (10-45 temporaries in one
    compilation unit) among which two user names are chosen so that `name + serial number`
    of one reads like the other's: A = base+X+d at serial c1 and B = base+X at serial c2 with
    str(c2) == d + str(c1) (e.g. total1 as no. 1 and total as no. 11; v12 as no. 3, v1 as
    no. 23). Variants: nested single lets, multi-binding lets, except-bound pair; in a function
    or at module level. Returns (template, names, expected events)."""
    while True:
        c2 = rng.randint(10, 42)
        s2 = str(c2)
        k = rng.randint(1, len(s2) - 1)
        if s2[k] != "0":
            break
    c1, d = int(s2[k:]), s2[:k]
    base = rng.choice(["x", "v", "total", "anon_", "let_x_", "_anon", "exc_e_", "q-"]) + rng.choice(["", "", "1", "2", "12"])
    A, B = base + d, base
    shift = rng.choice([0, 0, 0, 0, -1, 1])          # robustness against a different numbering origin
    c1, c2 = c1 + shift, c2 + shift
    if c1 < 1:
        c1, c2 = c1 + 1, c2 + 1
    variant = rng.choice(["nest", "nest", "multi", "groups", "except"])
    if variant == "except" and not (c1 >= 2 and c2 >= c1 + 2):
        variant = "nest"
    total = c2 + rng.randint(0, 4)
    names, vals = [], []

    def filler(i):
        return f"w{i}{rng.choice('abz')}"
    in_fn = rng.random() < 0.7
    if variant == "except":
        # serials: fillers 1..c1-2, outer try c1-1, outer handler name c1, fillers, inner try c2-1, inner name c2
        f1 = [filler(i) for i in range(c1 - 2)]
        f2 = [filler(100 + i) for i in range(c2 - c1 - 2)]
        names = f1 + [A] + f2 + [B]
        vals = [100 + i for i in range(len(names))]
        idx = {n: i for i, n in enumerate(names)}
        va, vb = vals[idx[A]], vals[idx[B]]
        logl = " ".join(ph(idx[n]) if n not in (A, B) else f"(get {ph(idx[n])}.args 0)" for n in names)
        inner = (f"(try (raise (EB {vb})) (except [{ph(idx[B])} EB] (L 1 [{logl}])))")
        def wrap(fill, inside):       # deep nesting of lets compiles very slowly: group the fillers
            chunks = [fill[i:i + 7] for i in range(0, len(fill), 7)]
            for ch in reversed(chunks):
                inside = "(let [" + " ".join(f"{ph(idx[n])} {vals[idx[n]]}" for n in ch) + f"] {inside})"
            return inside
        inner = wrap(f2, inner)
        body = wrap(f1, f"(try (raise (EA {va})) (except [{ph(idx[A])} EA] {inner}))")
    else:
        for i in range(1, total + 1):
            names.append(A if i == c1 else B if i == c2 else filler(i))
        vals = [100 + i for i in range(len(names))]
        logl = " ".join(ph(i) for i in range(len(names)))
        body = f"(L 1 [{logl}])"
        if variant == "nest" and len(names) > 14:
            variant = "groups"
        if variant == "multi":
            body = "(let [" + " ".join(f"{ph(i)} {vals[i]}" for i in range(len(names))) + f"] {body})"
        elif variant == "groups":
            cuts, i = [], 0
            while i < len(names):
                j = min(len(names), i + rng.randint(3, 8))
                cuts.append((i, j))
                i = j
            for i, j in reversed(cuts):
                body = "(let [" + " ".join(f"{ph(t)} {vals[t]}" for t in range(i, j)) + f"] {body})"
        else:
            for i in reversed(range(len(names))):
                body = f"(let [{ph(i)} {vals[i]}] {body})"
    fn = ph(len(names))
    text = f"(defn {fn} [] {body})\n({fn})" if in_fn else body
    from hv.common import token
    exp = [[1, token(list(vals))]]
    return text, names + ["digits-fn"], exp, variant


# ---------------------------------------------------------------------------
# the other builders' corpora (read-only, optional)

def _texts_of(case, out, depth=0):
    if depth > 4:
        return
    if isinstance(case, dict):
        for k, v in case.items():
            if k in ("hy", "text") and isinstance(v, str):
                out.append(v)
            elif isinstance(v, (dict, list)):
                _texts_of(v, out, depth + 1)
    elif isinstance(case, list):
        for v in case[:8]:
            _texts_of(v, out, depth + 1)


def foreign_texts(seed, shard, nshards, which=("c04", "c06", "c07", "c08")):
    """Round-robin generator of (origin, hy text) from the other builders'
    case generators; silently skips generators that are absent or broken."""
    import importlib
    gens = []
    for w in which:
        try:
            mod = importlib.import_module("checks." + w)
            gens.append((w, mod.cases(seed, "quick", shard, nshards)))
        except Exception:
            continue
    while gens:
        for ent in list(gens):
            w, g = ent
            try:
                case = next(g)
            except Exception:
                gens.remove(ent)
                continue
            texts = []
            try:
                _texts_of(case, texts)
            except Exception:
                continue
            for t in texts[:3]:
                yield w, t


# ---------------------------------------------------------------------------
# AST helpers

def is_hy_rooted(node):
    while isinstance(node, ast.Attribute):
        node = node.value
    return isinstance(node, ast.Name) and node.id == "hy"


def identifiers(tree):
    """(category, name, hy_rooted) for every identifier position the statement of C12 names."""
    out = []
    for node in ast.walk(tree):
        if isinstance(node, ast.Name):
            out.append(("name", node.id))
        elif isinstance(node, ast.arg):
            out.append(("arg", node.arg))
        elif isinstance(node, (ast.FunctionDef, ast.AsyncFunctionDef, ast.ClassDef)):
            out.append(("def", node.name))
        elif isinstance(node, ast.alias):
            if node.asname:
                out.append(("alias", node.asname))
            elif node.name != "*":
                out.append(("alias", node.name.split(".")[0]))
        elif isinstance(node, ast.ExceptHandler):
            if node.name:
                out.append(("handler", node.name))
        elif isinstance(node, (ast.Global, ast.Nonlocal)):
            out.extend(("decl", n) for n in node.names)
        elif isinstance(node, (ast.MatchAs, ast.MatchStar)):
            if node.name:
                out.append(("capture", node.name))
        elif isinstance(node, ast.MatchMapping):
            if node.rest:
                out.append(("capture", node.rest))
        elif isinstance(node, ast.Attribute):
            if not is_hy_rooted(node.value):
                out.append(("attr", node.attr))
    return out


def hy_names(tree):
    s = set()
    for cat, n in identifiers(tree):
        if cat != "attr" and n.startswith("_hy_"):
            s.add(n)
    return s


# ---------------------------------------------------------------------------
# C13 child: compile a batch of sources, print digests

def code_digest(co):
    """Canonical recursive digest of a code object: every co_* field, constants
    recursively, frozenset constants sorted (CPython marshals them in hash order)."""
    h = hashlib.sha1()

    def put(x):
        if isinstance(x, types.CodeType):
            h.update(b"<code")
            for f in ("co_argcount", "co_posonlyargcount", "co_kwonlyargcount", "co_nlocals", "co_stacksize",
                      "co_flags", "co_code", "co_names", "co_varnames", "co_freevars", "co_cellvars",
                      "co_filename", "co_name", "co_qualname", "co_firstlineno", "co_linetable",
                      "co_exceptiontable"):
                h.update(f.encode())
                put(getattr(x, f))
            h.update(b"consts")
            put(x.co_consts)
            h.update(b">")
        elif isinstance(x, (tuple, list)):
            h.update(b"(" + type(x).__name__.encode())
            for y in x:
                put(y)
            h.update(b")")
        elif isinstance(x, frozenset):
            h.update(b"{fs")
            for r in sorted(_digest_of(y) for y in x):
                h.update(r)
            h.update(b"}")
        else:
            h.update(type(x).__name__.encode() + b":" + repr(x).encode("utf-8", "backslashreplace") + b";")

    put(co)
    return h.hexdigest()


def _digest_of(x):
    h = hashlib.sha1()
    if isinstance(x, types.CodeType):
        return code_digest(x).encode()
    if isinstance(x, (tuple, frozenset)):
        parts = [_digest_of(y) for y in x]
        if isinstance(x, frozenset):
            parts.sort()
        h.update(type(x).__name__.encode())
        for p in parts:
            h.update(p)
        return h.hexdigest().encode()
    h.update(type(x).__name__.encode() + b":" + repr(x).encode("utf-8", "backslashreplace"))
    return h.hexdigest().encode()


def set_sizes(tree):
    """largest number of names in one declaration / leak set of the AST"""
    best = 0
    for node in ast.walk(tree):
        if isinstance(node, (ast.Global, ast.Nonlocal)):
            best = max(best, len(node.names))
        elif isinstance(node, ast.If) and isinstance(node.test, ast.Constant) and node.test.value is False:
            for st in node.body:
                if isinstance(st, ast.Assign) and isinstance(st.targets[0], ast.Tuple):
                    best = max(best, len(st.targets[0].elts))
        elif isinstance(node, ast.MatchOr):
            best = max(best, 2)
        elif isinstance(node, ast.Assign) and isinstance(node.targets[0], (ast.Tuple, ast.List)):
            # local-macro transfer of a function-local `require`
            el = node.targets[0].elts
            if el and all(isinstance(e, ast.Name) and e.id.startswith("_hy_local_macro__") for e in el):
                best = max(best, len(el))
    return best


def compile_one(text, modname="hvc13", filename="<hvc13>"):
    import hy  # noqa
    from hy.compiler import hy_compile
    from hy.reader import read_many
    m = types.ModuleType(modname)
    sys.modules[modname] = m
    try:
        tree = hy_compile(read_many(text, filename=filename), m, filename=filename, source=text)
        dump = ast.dump(tree, include_attributes=True)
        out = {"dump": hashlib.sha1(dump.encode("utf-8", "backslashreplace")).hexdigest(),
               "sets": set_sizes(tree), "hynames": len(hy_names(tree))}
        try:
            co = compile(tree, filename, "exec")
        except (SyntaxError, ValueError, TypeError) as e:
            # hy accepted the program, CPython rejects the AST: the AST dump still counts
            out.update(code="rejected-by-python:" + type(e).__name__, marshal="-")
            return out
        out.update(code=code_digest(co), marshal=hashlib.sha1(marshal.dumps(co)).hexdigest())
        return out
    except BaseException as e:
        if type(e).__name__ == "CaseTimeout":
            raise
        return {"err": type(e).__name__, "msg": str(e)[:200]}
    finally:
        sys.modules.pop(modname, None)


def child_main():
    import warnings
    warnings.simplefilter("ignore")
    path = sys.argv[1]
    want_dump = len(sys.argv) > 2 and sys.argv[2] == "dump"
    with open(path, encoding="utf-8") as f:
        texts = json.load(f)
    import hy
    repo = os.environ.get("VERIF_REPO", "/repo")
    if not os.path.abspath(hy.__file__).startswith(os.path.abspath(repo) + os.sep):
        print(json.dumps({"fatal": f"hy imported from {hy.__file__}"}))
        return
    out = []
    for t in texts:
        r = compile_one(t)
        if want_dump and "err" not in r:
            from hy.compiler import hy_compile
            from hy.reader import read_many
            m = types.ModuleType("hvc13")
            sys.modules["hvc13"] = m
            r["unparsed"] = ast.unparse(hy_compile(read_many(t, filename="<hvc13>"), m, filename="<hvc13>", source=t))
            sys.modules.pop("hvc13", None)
        out.append(r)
    sys.stdout.write(json.dumps({"hashseed": os.environ.get("PYTHONHASHSEED"), "results": out}))


if __name__ == "__main__":
    child_main()
