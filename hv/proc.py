"""Helpers for the checks that spawn sub-processes per case (C15, C16, C41).

Every case gets its own unique directory under $VERIF_SCRATCH and its own
PYTHONPYCACHEPREFIX inside it.  So that each child does not have to recompile
hy and the standard library, the per-case prefix is an *overlay* of the worker's
warm prefix: the directories on the path to the case directory are real, every
other entry is a symlink into the warm cache.  Byte-code of the case's own files
therefore lands only in the case's prefix (and is removed with it).
"""
import os
import shutil
import subprocess
import sys
import tempfile

MSG_ENV = "HY_MESSAGE_WHEN_COMPILING"


def scratch_root():
    d = os.environ.get("VERIF_SCRATCH")
    if not d or not os.path.isdir(d):
        d = tempfile.gettempdir()
    return d


def _overlay(warm, prefix, target_dir):
    """Make `prefix` look like `warm` except along the path to `target_dir`."""
    parts = [p for p in os.path.abspath(target_dir).split(os.sep) if p]
    w, p = warm, prefix
    for comp in parts:
        try:
            entries = os.listdir(w)
        except OSError:
            return
        for e in entries:
            if e == comp:
                continue
            try:
                os.symlink(os.path.join(w, e), os.path.join(p, e))
            except OSError:
                pass
        w = os.path.join(w, comp)
        p = os.path.join(p, comp)
        if not os.path.isdir(w):
            return
        os.mkdir(p)


class CaseDir:
    """Unique scratch directory + per-case byte-code cache for one case."""

    def __init__(self, tag):
        self.path = os.path.realpath(tempfile.mkdtemp(prefix=tag + "-", dir=scratch_root()))
        self.pyc = os.path.join(self.path, "_pyc")
        os.mkdir(self.pyc)
        warm = os.environ.get("PYTHONPYCACHEPREFIX")
        if warm and os.path.isdir(warm):
            _overlay(os.path.realpath(warm), self.pyc, self.path)

    def __enter__(self):
        return self

    def __exit__(self, *exc):
        self.cleanup()
        return False

    def cleanup(self):
        shutil.rmtree(self.path, ignore_errors=True)

    def write(self, rel, text, mode="w"):
        p = os.path.join(self.path, rel)
        os.makedirs(os.path.dirname(p), exist_ok=True)
        with open(p, mode, **({"encoding": "utf-8"} if "b" not in mode else {})) as f:
            f.write(text)
        return p

    def env(self, extra=None, message=True, pythonpath_first=None):
        """Environment for a child: inherits os.environ, byte-code writing
        enabled, own cache prefix, HY_MESSAGE_WHEN_COMPILING on."""
        env = dict(os.environ)
        env.pop("PYTHONDONTWRITEBYTECODE", None)
        env["PYTHONPYCACHEPREFIX"] = self.pyc
        env["PYTHONIOENCODING"] = "utf-8"
        env["PYTHONUTF8"] = "1"
        if message:
            env[MSG_ENV] = "1"
        else:
            env.pop(MSG_ENV, None)
        if pythonpath_first:
            env["PYTHONPATH"] = os.pathsep.join(
                list(pythonpath_first) + [env.get("PYTHONPATH", "")]).rstrip(os.pathsep)
        if extra:
            env.update(extra)
        return env

    def run(self, cmd, env=None, cwd=None, stdin=None, timeout=60):
        """Run a child; returns dict(rc, out, err) (rc None on timeout)."""
        try:
            p = subprocess.run(
                cmd, env=env if env is not None else self.env(),
                cwd=cwd or self.path,
                input=(stdin if stdin is not None else ""),
                capture_output=True, text=True, encoding="utf-8", errors="backslashreplace",
                timeout=timeout)
        except subprocess.TimeoutExpired:
            return {"rc": None, "out": "", "err": "<timeout>"}
        return {"rc": p.returncode, "out": p.stdout, "err": p.stderr}


def child_problem(r):
    """Class tag if the child did not run to its own end — timed out, or killed by a signal
    (negative return code: OOM killer, watchdog, ...) — else None.  Such an observation says
    nothing about hy, so callers turn the case into a skip, never into a violation."""
    if r["rc"] is None:
        return "child-timeout"
    if r["rc"] < 0:
        return "child-killed"
    return None


def skip_gate(tot, classes, limit=0.10):
    """Inconclusive reason if more than `limit` of the cases were skipped because a child
    timed out / was killed / left no dump."""
    n = sum(classes.get(k, 0) for k in ("child-timeout", "child-killed", "child-no-dump"))
    total = tot.get("evaluations", 0) + tot.get("skipped", 0)
    if n and n > limit * max(total, 1):
        return f"child-processes-lost-in-{n}-of-{total}-cases"
    return None


def compiled_paths(stderr):
    """Paths reported by HY_MESSAGE_WHEN_COMPILING on a child's stderr."""
    out = []
    for line in stderr.splitlines():
        if line.startswith("Compiling "):
            out.append(line[len("Compiling "):].strip())
    return out


def strip_compiling(stderr):
    return "\n".join(l for l in stderr.splitlines() if not l.startswith("Compiling "))


def python():
    return sys.executable


def hy_script():
    """The installed `hy` console script next to the interpreter."""
    return os.path.join(os.path.dirname(sys.executable), "hy")
