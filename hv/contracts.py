"""Run the repository's own tests under hv.pytest_contracts (DESIGN 6.8) in a sub-process
against the tree under test; returns the plugin's JSON (or {"error": ...})."""
import json
import os
import subprocess
import sys
import tempfile


def run_repo_tests(timeout=900):
    repo = os.environ.get("VERIF_REPO", "/repo")
    verif = os.path.dirname(os.path.dirname(os.path.abspath(__file__)))
    scratch = os.environ.get("VERIF_SCRATCH") or tempfile.gettempdir()
    fd, out = tempfile.mkstemp(prefix="contracts-", suffix=".json", dir=scratch)
    os.close(fd)
    env = dict(os.environ)
    env["PYTHONPATH"] = os.pathsep.join([repo, verif, os.path.join(verif, ".deps")])
    env["HV_CONTRACT_OUT"] = out
    env.pop("PYTHONDONTWRITEBYTECODE", None)
    cmd = [sys.executable, "-m", "pytest", "-q", "-p", "no:cacheprovider", "-p", "hv.pytest_contracts",
           "--timeout=600", "--deselect", "tests/test_bin.py", "--ignore", "tests/test_bin.py", "-x" if False else "-q"]
    try:
        r = subprocess.run(cmd, cwd=repo, env=env, capture_output=True, text=True, timeout=timeout)
        with open(out) as f:
            data = json.load(f)
        data["pytest_tail"] = r.stdout[-300:]
        return data
    except Exception as e:
        return {"error": repr(e)}
    finally:
        try:
            os.unlink(out)
        except OSError:
            pass
