"""Shared helpers: running Hy text in a fresh module under a trace logger /
failpoint, deep typed model equality, misc."""
import ast
import itertools
import math
import random
import sys
import types

_counter = itertools.count()


def rng_for(seed, pid, shard, i=None):
    return random.Random(f"{seed}:{pid}:{shard}:{i}")


class Fault(Exception):
    """Base for injected faults (distinguishable by .n)."""
    def __init__(self, n=None):
        super().__init__(n)
        self.n = n


class E1(Fault):
    pass


class E2(BaseException):
    def __init__(self, n=None):
        super().__init__(n)
        self.n = n


FAULT_TYPES = {"ValueError": ValueError, "KeyError": KeyError, "E1": E1, "E2": E2,
               "ZeroDivisionError": ZeroDivisionError, "TypeError": TypeError}


def token(v):
    """A JSON-able, comparison-stable token for a logged value."""
    if isinstance(v, float) and v != v:
        return ["float", "nan"]
    if isinstance(v, (int, float, str, bytes, bool, type(None), complex)):
        return [type(v).__name__, repr(v)]
    if isinstance(v, (list, tuple, set, frozenset, dict)):
        try:
            if isinstance(v, (set, frozenset)):
                return [type(v).__name__, sorted(map(repr, v))]
            return [type(v).__name__, repr(v)]
        except Exception:
            return [type(v).__name__, "?"]
    if isinstance(v, BaseException):
        return ["exc", type(v).__name__, [token(a) for a in v.args]]
    return [type(v).__name__]


class Trace:
    """The trace logger and failpoint: L(k, v) logs (k, token(v)) and returns v;
    with a fault plan {ordinal: exc type name} the n-th event raises instead."""

    def __init__(self, plan=None, with_values=True):
        self.events = []
        self.plan = dict(plan or {})
        self.n = 0
        self.with_values = with_values

    def L(self, k, v=None):
        self.n += 1
        exc = self.plan.get(self.n) or self.plan.get(str(self.n))
        if exc is not None:
            self.events.append([k, "!" + exc])
            raise FAULT_TYPES[exc](self.n)
        self.events.append([k, token(v)] if self.with_values else k)
        return v

    def keys(self):
        return [e[0] if isinstance(e, list) else e for e in self.events]


def fresh_module(prefix="hvcase"):
    name = f"{prefix}_{next(_counter)}"
    m = types.ModuleType(name)
    m.__file__ = f"<{name}>"
    return m


def compile_hy(text, module, filename="<hvcase>"):
    import hy
    from hy.compiler import hy_compile
    from hy.reader import read_many
    tree = hy_compile(read_many(text, filename=filename), module,
                      filename=filename, source=text)
    return tree


def exec_hy(text, env=None, module=None, filename="<hvcase>"):
    """Compile `text` with the tree's compiler and exec it in a fresh module.
    Returns (module, escaping exception or None, ast tree or None, phase) where
    phase is 'compile' if compilation raised, 'run' if execution raised."""
    m = module or fresh_module()
    if env:
        m.__dict__.update(env)
    sys.modules[m.__name__] = m
    try:
        try:
            tree = compile_hy(text, m, filename)
            code = compile(tree, filename, "exec")
        except BaseException as e:
            if type(e).__name__ == "CaseTimeout":
                raise
            return m, e, None, "compile"
        try:
            exec(code, m.__dict__)
        except BaseException as e:
            if type(e).__name__ == "CaseTimeout":
                raise
            return m, e, tree, "run"
        return m, None, tree, None
    finally:
        sys.modules.pop(m.__name__, None)


def exec_py(text, env=None, filename="<hvtwin>"):
    m = fresh_module("hvtwin")
    if env:
        m.__dict__.update(env)
    try:
        code = compile(text, filename, "exec")
    except BaseException as e:
        return m, e, "compile"
    try:
        exec(code, m.__dict__)
    except BaseException as e:
        if type(e).__name__ == "CaseTimeout":
            raise
        return m, e, "run"
    return m, None, None


def exc_token(e):
    if e is None:
        return None
    return [type(e).__name__, [token(a) for a in getattr(e, "args", ())][:3]]


# --- deep typed equality over models / values -----------------------------

def _nan_eq(a, b):
    if isinstance(a, float) and isinstance(b, float):
        if a != a and b != b:
            return True
        return a == b
    if isinstance(a, complex) and isinstance(b, complex):
        return _nan_eq(a.real, b.real) and _nan_eq(a.imag, b.imag)
    return a == b


MODEL_ATTRS = ("brackets", "conversion", "is_tstring", "expression")


def same_model(a, b, path="", attrs=MODEL_ATTRS):
    """Deep typed equality of model trees. Returns None if same, else a string
    describing the first difference."""
    import hy.models as M
    if type(a) is not type(b):
        return f"{path}: type {type(a).__name__} != {type(b).__name__}"
    for at in attrs:
        if hasattr(a, at) or hasattr(b, at):
            if getattr(a, at, None) != getattr(b, at, None):
                return f"{path}: .{at} {getattr(a, at, None)!r} != {getattr(b, at, None)!r}"
    if isinstance(a, M.Sequence):
        if len(a) != len(b):
            return f"{path}: len {len(a)} != {len(b)}"
        for i, (x, y) in enumerate(zip(a, b)):
            d = same_model(x, y, f"{path}[{i}]", attrs)
            if d:
                return d
        return None
    if isinstance(a, M.Keyword):
        return None if a.name == b.name else f"{path}: keyword {a.name!r} != {b.name!r}"
    if isinstance(a, M.Float):
        return None if _nan_eq(float(a), float(b)) else f"{path}: {a!r} != {b!r}"
    if isinstance(a, M.Complex):
        return None if _nan_eq(complex(a), complex(b)) else f"{path}: {a!r} != {b!r}"
    if isinstance(a, M.Integer):
        return None if int(a) == int(b) else f"{path}: {a!r} != {b!r}"
    if isinstance(a, (M.String, M.Symbol)):
        return None if str(a) == str(b) else f"{path}: {str(a)!r} != {str(b)!r}"
    if isinstance(a, M.Bytes):
        return None if bytes(a) == bytes(b) else f"{path}: {bytes(a)!r} != {bytes(b)!r}"
    if isinstance(a, (list, tuple)):
        if len(a) != len(b):
            return f"{path}: len {len(a)} != {len(b)}"
        for i, (x, y) in enumerate(zip(a, b)):
            d = same_model(x, y, f"{path}[{i}]", attrs)
            if d:
                return d
        return None
    return None if _nan_eq(a, b) else f"{path}: {a!r} != {b!r}"


def same_value(a, b, path=""):
    """Deep typed equality of plain Python values, NaN-aware."""
    if type(a) is not type(b):
        return f"{path}: type {type(a).__name__} != {type(b).__name__}"
    if isinstance(a, (list, tuple)):
        if len(a) != len(b):
            return f"{path}: len {len(a)} != {len(b)}"
        for i, (x, y) in enumerate(zip(a, b)):
            d = same_value(x, y, f"{path}[{i}]")
            if d:
                return d
        return None
    if isinstance(a, float):
        if a != a and b != b:
            return None
        if a == b and math.copysign(1, a) == math.copysign(1, b):
            return None
        return f"{path}: {a!r} != {b!r}"
    if isinstance(a, complex):
        return same_value(a.real, b.real, path + ".re") or same_value(a.imag, b.imag, path + ".im")
    if isinstance(a, dict):
        if len(a) != len(b):
            return f"{path}: dict len"
        if _has_nan(a) or _has_nan(b):
            ka, kb = list(a.items()), list(b.items())
            return same_value(ka, kb, path + ".items")
        return None if a == b and all(type(a[k]) is type(b[k]) for k in a) else f"{path}: {a!r} != {b!r}"
    if isinstance(a, (set, frozenset)):
        if _has_nan(a) or _has_nan(b):
            return None if sorted(map(repr, a)) == sorted(map(repr, b)) else f"{path}: {a!r} != {b!r}"
        return None if a == b else f"{path}: {a!r} != {b!r}"
    try:
        eq = (a == b)
    except Exception as e:
        return f"{path}: == raised {e!r}"
    return None if eq else f"{path}: {a!r} != {b!r}"


def _has_nan(x):
    r = repr(x)
    return "nan" in r


def model_depth(m):
    import hy.models as M
    if isinstance(m, M.Sequence):
        return 1 + max((model_depth(x) for x in m), default=0)
    return 0


def ast_names(tree):
    """All identifier-like strings in a Python AST, by category."""
    out = []
    for node in ast.walk(tree):
        if isinstance(node, ast.Name):
            out.append(("name", node.id))
        elif isinstance(node, ast.arg):
            out.append(("arg", node.arg))
        elif isinstance(node, (ast.FunctionDef, ast.AsyncFunctionDef, ast.ClassDef)):
            out.append(("def", node.name))
        elif isinstance(node, ast.alias):
            if node.asname:
                out.append(("alias", node.asname))
        elif isinstance(node, ast.ExceptHandler):
            if node.name:
                out.append(("handler", node.name))
        elif isinstance(node, (ast.Global, ast.Nonlocal)):
            out.extend(("decl", n) for n in node.names)
        elif isinstance(node, (ast.MatchAs, ast.MatchStar)):
            if node.name:
                out.append(("capture", node.name))
        elif isinstance(node, ast.MatchMapping):
            if node.rest:
                out.append(("capture", node.rest))
        elif isinstance(node, ast.keyword):
            if node.arg:
                out.append(("kwarg", node.arg))
        elif isinstance(node, ast.Attribute):
            out.append(("attr", node.attr))
    return out


def has_hoisted(tree):
    for node in ast.walk(tree):
        if isinstance(node, ast.Name) and node.id.startswith("_hy_"):
            return True
    return False
