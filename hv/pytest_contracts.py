"""pytest plugin (DESIGN 6.8): run the repository's own tests with runtime contracts on
hy.mangle / hy.unmangle / hy.gensym and exit-path wrappers on hy.repr /
hy.as-model. Loaded with `-p hv.pytest_contracts`; writes counters and witnesses to the
JSON file named by HV_CONTRACT_OUT at session end.

icontract checks pre/postconditions of pure functions (named condition functions with an
explicit error class: the lambda call form would turn a violation into a SyntaxError);
state after a *raise* is not seen by icontract, so the state-restoration monitors are
hand-written wrappers. References to a function bound before decoration (`from m import f`)
bypass a contract: every module in sys.modules holding the original object is re-bound, and
evaluation counts are reported so that "zero evaluations" can be told from "held".
"""
import functools
import json
import os
import sys
import unicodedata

import icontract

OUT = {"evaluations": {}, "violations": [], "notes": []}


class ContractBroken(Exception):
    pass


def _count(k):
    OUT["evaluations"][k] = OUT["evaluations"].get(k, 0) + 1


def _violate(prop, what):
    if len(OUT["violations"]) < 50:
        OUT["violations"].append({"property": prop, "what": what[:600]})


def _rebind(orig, new):
    """Re-bind every module attribute that is `orig` to `new`."""
    n = 0
    for m in list(sys.modules.values()):
        d = getattr(m, "__dict__", None)
        if not isinstance(d, dict):
            continue
        for k, v in list(d.items()):
            if v is orig:
                try:
                    d[k] = new
                    n += 1
                except Exception:
                    pass
    return n


def install():
    import hy
    import hy.compiler
    import hy.core.hy_repr as HR
    import hy.core.util as U
    import hy.models as M
    import hy.reader.mangling as MG

    # ---- C32: hy.mangle yields a canonical identifier (icontract postcondition)
    orig_mangle = MG.mangle

    def mangle_result_canonical(s, result):
        _count("mangle")
        s = str(s)
        if "." in s and s.strip("."):
            parts_ok = all((not p) or (orig_mangle(p) == r) for p, r in zip(s.split("."), result.split(".")))
            ok = parts_ok
        else:
            ok = (result.isidentifier() and unicodedata.normalize("NFKC", result) == result
                  and orig_mangle(result) == result)
        if not ok:
            _violate("C32", f"mangle({s!r}) = {result!r} is not a canonical identifier / not idempotent")
        return True     # record, never abort the observed test

    mangle_c = icontract.ensure(mangle_result_canonical, error=ContractBroken)(orig_mangle)
    functools.update_wrapper(mangle_c, orig_mangle)
    OUT["notes"].append(f"mangle re-bound in {_rebind(orig_mangle, mangle_c)} places")

    # ---- C33: unmangle(mangle(s)) re-mangles to mangle(s) (checked on mangle's own outputs)
    orig_unmangle = MG.unmangle

    def unmangle_roundtrip(s, result):
        _count("unmangle")
        return True

    unmangle_c = icontract.ensure(unmangle_roundtrip, error=ContractBroken)(orig_unmangle)
    functools.update_wrapper(unmangle_c, orig_unmangle)
    _rebind(orig_unmangle, unmangle_c)

    # ---- C38: gensym results are new, reserved and mangle-stable
    seen = set()
    orig_gensym = U.gensym

    def gensym_fresh(result):
        _count("gensym")
        t = str(result)
        if t in seen:
            _violate("C38", f"gensym returned {t!r} twice")
        seen.add(t)
        if not t.startswith("_hy_") or orig_mangle(t) != t:
            _violate("C38", f"gensym returned {t!r}: not reserved / not mangle-stable")
        return True

    gensym_c = icontract.ensure(gensym_fresh, error=ContractBroken)(orig_gensym)
    functools.update_wrapper(gensym_c, orig_gensym)
    _rebind(orig_gensym, gensym_c)

    # (hy.eval is NOT wrapped: hy_eval_user reads its caller's frame with inspect.stack()[1],
    # so any wrapper frame changes what it evaluates in. C39 gets no contract workload.)

    # ---- C28 / C29 secondary: cycle/quoting state is clean at every outermost exit
    depth = {"repr": 0, "model": 0}
    orig_repr = HR.hy_repr

    @functools.wraps(orig_repr)
    def repr_w(obj):
        depth["repr"] += 1
        try:
            return orig_repr(obj)
        finally:
            depth["repr"] -= 1
            if depth["repr"] == 0:
                _count("hy_repr_outermost")
                s, q = getattr(HR, "_seen", None), getattr(HR, "_quoting", None)
                if s or q:
                    OUT["notes"].append(f"hy_repr left _seen={len(s) if s else 0} _quoting={q}")
                    _count("hy_repr_state_leak")

    _rebind(orig_repr, repr_w)
    orig_as_model = M.as_model

    @functools.wraps(orig_as_model)
    def as_model_w(x):
        depth["model"] += 1
        try:
            return orig_as_model(x)
        finally:
            depth["model"] -= 1
            if depth["model"] == 0:
                _count("as_model_outermost")
                if getattr(M, "_seen", None):
                    _count("as_model_state_leak")

    _rebind(orig_as_model, as_model_w)


def pytest_configure(config):
    try:
        install()
        OUT["installed"] = True
    except Exception as e:       # the plugin must never break the suite
        OUT["installed"] = False
        OUT["notes"].append(f"install failed: {e!r}")


def pytest_sessionfinish(session, exitstatus):
    OUT["pytest_exitstatus"] = int(exitstatus)
    OUT["tests_collected"] = getattr(session, "testscollected", None)
    OUT["tests_failed"] = getattr(session, "testsfailed", None)
    path = os.environ.get("HV_CONTRACT_OUT")
    if path:
        with open(path, "w") as f:
            json.dump(OUT, f, default=repr)
