"""Syntax IR for the reader properties (DESIGN 6.5).

Three things live here:

1. **Generator + renderer.**  ``gen_program(rng, cfg)`` builds a random tree of
   well-formed Hy *source text* (class ``Top`` holding ``Node`` objects and
   ``Gap`` separators).  Every node knows the model the reader is documented
   to produce for it and the concrete spelling that was chosen (sugar or long
   form, string prefix and escapes, bracket delimiter, number spelling ...).
   ``render(tree, seps=..., sugar=...)`` turns the tree into a ``Rendered``:

   * ``text``    the source text,
   * ``models``  the expected model list as JSON-able *spec* dicts
                 (see ``spec_diff``), each carrying ``own`` (does the node
                 have source text of its own?), ``span`` (inclusive character
                 offsets of that text) and ``noorder`` (``#^`` reverses order),
   * ``cuts``    one label per cut point ``0..len(text)`` (see ``CUT_*``),
   * ``fparts``  spans of f-string literal parts, ``fdebug`` offsets of debug
                 ``=`` signs, ``tags`` construct tags,
   * ``lines``/``maxdepth``/``tail_comment`` layout facts.

   The same tree can be rendered with rich separators or the single-space
   baseline, and with sugar as chosen / all long form / all sugar.

2. **Scanner.**  ``scan(text)`` is a small independent lexer for *arbitrary*
   well-formed Hy text (the repository corpus).  It yields the same cut
   labels as the renderer plus the spans of top-level forms, the separator
   gaps and the f-string literal parts.  It knows nothing about user-defined
   reader macros and raises ``ScanError`` on them.

3. **Corpus loader.**  ``load_corpus(repo)`` returns the top-level forms of
   all ``*.hy`` files of the tree under test.

Nothing in this module imports hy except ``spec_diff`` / ``read_outcome``
(which need the model classes / the reader of the tree under test).
"""
import ast
import glob
import os

NON_IDENT = set("()[]{};\"'`~")
WS = " \t\n\r\f\v"

# cut classes -----------------------------------------------------------------
CUT_TOP = "T"      # between top-level forms: must read without error
CUT_OPEN = "O"     # inside an open construct at a token boundary: must be premature
CUT_MID = "M"      # inside a token, inside a bracket/string/field: premature unless the
#                    truncated token is itself an error (decided with ``closers``)
CUT_TOPMID = "X"   # inside a token with only prefixes (or nothing) open: outside the statement


# =============================================================================
# expected-model specs
# =============================================================================

def mk(t, v=None, c=None, own=True, **attrs):
    """A spec node.  t = model class name, v = payload, c = children."""
    d = {"t": t, "own": own}
    if v is not None:
        d["v"] = v
    if c is not None:
        d["c"] = c
    if attrs:
        d["a"] = attrs
    return d


def sym(name, own=True):
    return mk("Symbol", name, own=own)


def _float_eq(a, b):
    return (a != a and b != b) or a == b


def spec_diff(model, spec, path="", attrs=("brackets", "conversion", "is_tstring")):
    """Deep typed comparison of an actual model with an expected spec.
    Returns None when they agree, else a description of the first difference.
    Positions are ignored.  NaN equals NaN."""
    import hy.models as M
    t = spec["t"]
    if type(model).__name__ != t or not isinstance(model, M.Object):
        return f"{path}: type {type(model).__name__} != {t}"
    for k, v in spec.get("a", {}).items():
        if k in attrs and getattr(model, k, "<missing>") != v:
            return f"{path}: .{k} {getattr(model, k, '<missing>')!r} != {v!r}"
    if "c" in spec:
        kids = spec["c"]
        if len(model) != len(kids):
            return f"{path}: len {len(model)} != {len(kids)}"
        for i, (m, s) in enumerate(zip(model, kids)):
            d = spec_diff(m, s, f"{path}[{i}]", attrs)
            if d:
                return d
        return None
    v = spec.get("v")
    if t in ("Symbol", "String"):
        return None if str(model) == v else f"{path}: {str(model)!r} != {v!r}"
    if t == "Keyword":
        return None if model.name == v else f"{path}: keyword {model.name!r} != {v!r}"
    if t == "Integer":
        return None if int(model) == int(v) else f"{path}: {int(model)} != {v}"
    if t == "Float":
        return None if _float_eq(float(model), float(v)) else f"{path}: {float(model)!r} != {v}"
    if t == "Complex":
        z = complex(model)
        ok = _float_eq(z.real, float(v[0])) and _float_eq(z.imag, float(v[1]))
        return None if ok else f"{path}: {z!r} != {v}"
    if t == "Bytes":
        return None if bytes(model) == v.encode("latin-1") else f"{path}: {bytes(model)!r} != {v!r}"
    return f"{path}: unknown spec type {t}"


def specs_diff(models, specs, **kw):
    """Compare a list of models with a list of specs."""
    if len(models) != len(specs):
        return f"top-level: {len(models)} models != {len(specs)} expected"
    for i, (m, s) in enumerate(zip(models, specs)):
        d = spec_diff(m, s, f"[{i}]", **kw)
        if d:
            return d
    return None


def spec_depth(spec):
    return 1 + max((spec_depth(c) for c in spec["c"]), default=0) if "c" in spec else 0


# =============================================================================
# positions
# =============================================================================

class LineIndex:
    """Offset <-> (line, column) with the reader's convention: lines end at
    LF only, both 1-based, a column counts characters (CR, TAB, FF are one)."""

    def __init__(self, text):
        self.text = text
        self.starts = [0]
        for i, ch in enumerate(text):
            if ch == "\n":
                self.starts.append(i + 1)

    def pos(self, off):
        import bisect
        ln = bisect.bisect_right(self.starts, off) - 1
        return ln + 1, off - self.starts[ln] + 1

    def offset(self, line, col):
        """Offset of the character at (line, col); None if the line does not exist."""
        if not (1 <= line <= len(self.starts)):
            return None
        return self.starts[line - 1] + col - 1

    def region(self, sl, sc, el, ec):
        """Text of the inclusive region, or None if it is not inside the text."""
        a, b = self.offset(sl, sc), self.offset(el, ec)
        if a is None or b is None or a < 0 or b < a or b >= len(self.text):
            return None
        return self.text[a:b + 1]


# =============================================================================
# recorder: text + token ids + open-construct stack after every character
# =============================================================================

# stack entries: ("H", kind, closer, zone) hard constructs (brackets, strings,
# f-string fields); ("S", kind, need) pending prefixes (sugar, #_, #^).

def _ident_end(ch):
    return ch not in NON_IDENT and ch not in WS


def _danger_start(ch):
    return (ch not in NON_IDENT and ch not in WS) or ch == '"'


class Recorder:
    """Accumulates text while tracking, per character, the token it belongs to
    and the stack of open constructs after it.  Used by the renderer (which
    decides the text) and by the scanner (which follows a given text)."""

    def __init__(self):
        self.buf = []
        self.tok = []
        self.stk = []
        self.stack = ()
        self._ntok = 0
        self._pending = None
        self.fparts = []       # f-string literal parts: [start, end_incl, index, follows_a_field]
        self.fdebug = []       # offsets of the '=' of f-string debug fields
        self.tags = set()
        self.maxdepth = 0

    # -- emission
    def bound(self, kind):
        """Declare a boundary; a space is inserted lazily if the next
        character would otherwise merge with / be misread after the last."""
        self._pending = kind

    def flush(self, nxt):
        kind, self._pending = self._pending, None
        if kind is None or not self.buf:
            return
        prev = self.buf[-1]
        need = False
        if prev in WS:
            need = False
        elif kind == "sib":
            need = _ident_end(prev) and _danger_start(nxt)
        elif kind == "hash":
            need = nxt not in NON_IDENT and nxt not in WS
        elif kind == "tilde":
            need = nxt == "@"
        elif kind == "lbrace":
            need = nxt == "{"
        elif kind == "ftail":
            need = _ident_end(prev)
        if need:
            self._put(" ", None)

    def _put(self, s, tid):
        for ch in s:
            self.buf.append(ch)
            self.tok.append(tid)
            self.stk.append(self.stack)

    def raw(self, s):
        if s:
            if self._pending:
                self.flush(s[0])
            self._put(s, None)

    def token(self, s):
        if s:
            if self._pending:
                self.flush(s[0])
            self._ntok += 1
            self._put(s, self._ntok)

    def punct(self, s):
        """Multi-character punctuation (#( #{ #[ #_ #* #** #^ ~@): after the
        first character a dispatch is pending, so a cut inside it is an
        ordinary 'right after a prefix' cut, not a cut inside a token."""
        self.raw(s[0])
        if len(s) > 1:
            self.push(("S", "dispatch", 1))
            self.raw(s[1:])
            self.pop()

    def here(self, first_char):
        """Resolve a pending boundary for a node starting with first_char and
        return the offset at which it will start."""
        if self._pending:
            self.flush(first_char)
        return len(self.buf)

    # -- stack
    def _fix(self):
        if self.stk:
            self.stk[-1] = self.stack
        d = sum(1 for e in self.stack if e[0] == "H")
        if d > self.maxdepth:
            self.maxdepth = d

    def push(self, e):
        self.stack = self.stack + (e,)
        self._fix()

    def pop(self):
        self.stack = self.stack[:-1]
        self._fix()

    def retop(self, e):
        self.stack = self.stack[:-1] + (e,)
        self._fix()

    # -- results
    def text(self):
        return "".join(self.buf)

    def cut_labels(self):
        """[cls, depth, infield, ffeat, closers] for every cut 0..n.
        depth   = number of open brackets/strings/fields,
        infield = 1 if some enclosing construct is an f-string field,
        ffeat   = 1 if end of input here is met by the field-terminator code
                  of the reader (innermost hard construct is a field whose
                  form is complete or being completed by this token),
        closers = text that closes everything open (only for class M)."""
        n = len(self.buf)
        out = []
        for k in range(n + 1):
            st = self.stk[k - 1] if k else ()
            intok = 0 < k < n and self.tok[k - 1] is not None and self.tok[k - 1] == self.tok[k]
            hard = [e for e in st if e[0] == "H"]
            depth = len(hard)
            infield = int(any(e[1] == "field" for e in hard))
            ffeat = 0
            if hard and hard[-1][1] == "field":
                z = hard[-1][3]
                if z == "post" or (z == "pre" and intok):
                    ffeat = 1
            closers = ""
            if intok:
                cls = CUT_MID if hard else CUT_TOPMID
                if hard:
                    # close everything, supplying filler forms (" 0") where a
                    # pending prefix / field would otherwise be left without one
                    parts = []
                    have = True          # the truncated token is a form
                    for e in reversed(st):
                        if e[0] == "H":
                            if e[1] == "field" and e[3] == "pre" and not have:
                                parts.append(" 0")
                            parts.append(e[2])
                            have = e[1] != "field"
                        elif e[1] == "discard":
                            if not have:
                                parts.append(" 0")
                            have = False
                        else:
                            missing = e[2] - (1 if have else 0)
                            parts.append(" 0" * missing)
                            have = True
                    closers = "".join(parts)
            else:
                cls = CUT_OPEN if st else CUT_TOP
            out.append([cls, depth, infield, ffeat, closers])
        return out


# =============================================================================
# IR nodes
# =============================================================================

class Gap:
    """Separator between sibling forms.  elts: list of
    ("ws", chars) | ("com", text, newline) | ("dis", ws_after_prefix, Gap, Node)."""

    def __init__(self, elts=()):
        self.elts = list(elts)

    def has_noise(self):
        return any(e[0] != "ws" for e in self.elts)

    def render(self, R):
        for e in self.elts:
            if e[0] == "ws":
                R.raw(e[1])
                R.tags.add("ws:" + "+".join(sorted({_WSNAME[c] for c in e[1]})))
            elif e[0] == "com":
                R.raw(";" + e[1])
                R.raw(e[2])
                R.tags.add("comment")
            else:
                if R._pending is None:
                    R.bound("sib")     # (a pending prefix boundary is kept: "#* #_ x y")
                R.punct("#_")
                R.push(("S", "discard", 1))
                R.raw(e[1])
                R.bound("hash")
                e[2].render(R)
                e[3].render(R)
                R.pop()
                R.tags.add("discard")
            R.bound("sib")


_WSNAME = {" ": "SP", "\t": "TAB", "\n": "LF", "\r": "CR", "\f": "FF", "\v": "VT"}


class Node:
    """Base class.  render(R) emits the node's text into the renderer and
    returns the expected spec (with span/own filled in)."""

    def first(self, R):
        raise NotImplementedError

    def render(self, R):
        raise NotImplementedError


def _copy_spec(s):
    d = dict(s)
    if "c" in d:
        d["c"] = [_copy_spec(c) for c in d["c"]]
    if "a" in d:
        d["a"] = dict(d["a"])
    return d


class Atom(Node):
    """An identifier-like token: symbol, number, keyword, dotted identifier."""

    def __init__(self, text, spec, tag):
        self.text, self.spec, self.tag = text, spec, tag

    def first(self, R):
        return self.text[0]

    def render(self, R):
        a = R.here(self.text[0])
        R.token(self.text)
        s = _copy_spec(self.spec)
        s["span"] = [a, len(R.buf) - 1]
        R.tags.add(self.tag)
        return s


class Str(Node):
    """A double-quoted string or bytes literal: prefix + pieces [(src, val)]."""

    def __init__(self, prefix, pieces):
        self.prefix, self.pieces = prefix, pieces

    def first(self, R):
        return (self.prefix or '"')[0]

    def render(self, R):
        a = R.here(self.first(R))
        R.token(self.prefix + '"')      # prefix and quote are one lexical unit
        R.push(("H", "str", '"', None))
        for src, _ in self.pieces:
            R.raw(src)
        R.raw('"')
        R.pop()
        val = "".join(v for _, v in self.pieces)
        R.tags.add("str:" + (self.prefix or "plain"))
        if any("\n" in s or "\r" in s for s, _ in self.pieces):
            R.tags.add("str:newline")
        s = mk("Bytes", val) if "b" in self.prefix else mk("String", val, brackets=None)
        s["span"] = [a, len(R.buf) - 1]
        return s


class BStr(Node):
    """A bracket string #[delim[body]delim] (not an f-string)."""

    def __init__(self, delim, body, value):
        self.delim, self.body, self.value = delim, body, value

    def first(self, R):
        return "#"

    def render(self, R):
        a = R.here("#")
        closer = "]" + self.delim + "]"
        R.punct("#[")
        R.push(("H", "bstr", closer, None))
        R.raw(self.delim + "[")
        R.raw(self.body)
        R.raw(closer)
        R.pop()
        R.tags.add("bstr")
        s = mk("String", self.value, brackets=self.delim)
        s["span"] = [a, len(R.buf) - 1]
        return s


class Field:
    """An f-string replacement field."""

    def __init__(self, form, ws_before="", ws_between="", debug=False, ws_eq="",
                 conv=None, ws_conv="", spec=None, pre=None):
        self.form, self.ws_before, self.ws_between = form, ws_before, ws_between
        self.debug, self.ws_eq, self.conv, self.ws_conv = debug, ws_eq, conv, ws_conv
        self.spec = spec          # None or list of Lit/Field
        self.pre = pre            # optional Gap (comments/discards) before the form


class Lit:
    """A literal part of an f-string: pieces [(src, val)]."""

    def __init__(self, pieces):
        self.pieces = pieces


class FStr(Node):
    """An f-string / t-string: f"..." (prefix f, fr, rf, t) or #[f-x[...]f-x]."""

    def __init__(self, parts, prefix="f", delim=None):
        self.parts, self.prefix, self.delim = parts, prefix, delim

    def first(self, R):
        return "#" if self.delim is not None else self.prefix[0]

    def render(self, R):
        a = R.here(self.first(R))
        tstr = "t" in self.prefix and self.delim is None
        if self.delim is None:
            closer = '"'
            R.token(self.prefix + '"')
            R.push(("H", "fstr", closer, None))
            R.tags.add("fstr:" + self.prefix)
        else:
            closer = "]" + self.delim + "]"
            R.punct("#[")
            R.push(("H", "fstr", closer, None))
            R.raw(self.delim + "[")
            R.tags.add("fstr:bracket")
        kids = self._parts(R, self.parts, tstr, join=True)
        R.raw(closer)
        R.pop()
        s = mk("FString", None, kids, brackets=self.delim, is_tstring=tstr)
        s["span"] = [a, len(R.buf) - 1]
        return s

    def _parts(self, R, parts, tstr, join):
        """Render literal parts and fields; returns the expected children.
        Adjacent strings are joined at FString level (join=True) only."""
        kids = []
        nlit = 0
        after_field = 0
        for p in parts:
            if isinstance(p, Lit):
                src = "".join(s for s, _ in p.pieces)
                val = "".join(v for _, v in p.pieces)
                if not src:
                    continue
                b = len(R.buf)
                for ps, _ in p.pieces:
                    if ps in ("{{", "}}"):
                        R.token(ps)     # a doubled brace is one lexical unit
                    else:
                        R.raw(ps)
                R.fparts.append([b, len(R.buf) - 1, nlit, after_field])
                nlit += 1
                if val:
                    kids.append(mk("String", val, own=False, brackets=None))
                if len(kids) > 1 or nlit > 1:
                    R.tags.add("fstr:multi-literal")
            else:
                kids.extend(self._field(R, p, tstr))
                after_field = 1
        if join:
            out = []
            for k in kids:
                if out and out[-1]["t"] == "String" and k["t"] == "String":
                    out[-1] = mk("String", out[-1]["v"] + k["v"], own=False, brackets=None)
                    out[-1]["joined"] = True
                else:
                    out.append(k)
            kids = out
        return kids

    def _field(self, R, f, tstr):
        b = len(R.buf)
        R.raw("{")
        R.push(("H", "field", "}", "pre"))
        R.raw(f.ws_before)
        if f.pre is not None:
            f.pre.render(R)
            R.tags.add("field:comment")
        R.bound("lbrace" if R.buf[-1] == "{" else "sib")
        if f.debug:
            # the debug text is the field's source verbatim, so inside a '='
            # field neither separators nor sugar spelling may vary between renderings
            keep = R.seps, R.sugar
            R.seps, R.sugar = "single", "chosen"
            form = f.form.render(R)
            R.seps, R.sugar = keep
        else:
            form = f.form.render(R)
        R.retop(("H", "field", "}", "post"))
        R.tags.add("field")
        tail = f.debug or f.conv is not None or f.spec is not None
        if tail:
            R.bound("ftail")
        R.raw(f.ws_between)
        out = []
        if f.debug:
            R.fdebug.append(R.here("="))
            R.raw("=")
            R.raw(f.ws_eq)
            dbg = "".join(R.buf[b + 1:])
            out.append(mk("String", dbg, own=False, brackets=None))
            R.tags.add("field:=")
        conv = f.conv
        if conv is not None:
            R.raw("!")
            R.raw(conv)
            R.raw(f.ws_conv)
            R.tags.add("field:!")
        kids = [form]
        if f.spec is not None:
            R.raw(":")
            R.retop(("H", "field", "}", "spec"))
            kids += self._parts(R, f.spec, False, join=False)
            R.tags.add("field:spec")
            if any(isinstance(p, Field) for p in f.spec):
                R.tags.add("field:nested-spec")
        elif f.debug and conv is None:
            conv = "r"
        R.raw("}")
        R.pop()
        fc = mk("FComponent", None, kids, own=False, conversion=conv, is_tstring=tstr)
        fc["span"] = [b, len(R.buf) - 1]
        out.append(fc)
        return out


_SEQ = {"expr": ("(", ")", "Expression"), "list": ("[", "]", "List"),
        "dict": ("{", "}", "Dict"), "set": ("#{", "}", "Set"),
        "tuple": ("#(", ")", "Tuple")}


class Seq(Node):
    """A bracketed sequence with len(items)+1 gaps."""

    def __init__(self, kind, items, gaps):
        self.kind, self.items, self.gaps = kind, items, gaps

    def first(self, R):
        return _SEQ[self.kind][0][0]

    def render(self, R):
        op, cl, t = _SEQ[self.kind]
        a = R.here(op[0])
        R.punct(op)
        R.push(("H", self.kind, cl, None))
        kids = _render_items(R, self.items, self.gaps)
        R.raw(cl)
        R.pop()
        R.tags.add(self.kind)
        if not self.items:
            R.tags.add("empty-seq")
        s = mk(t, None, kids)
        s["span"] = [a, len(R.buf) - 1]
        return s


def _render_items(R, items, gaps):
    kids = []
    if R.seps == "rich":
        gaps[0].render(R)
        for i, it in enumerate(items):
            R.bound("sib")
            kids.append(it.render(R))
            R.bound("sib")
            gaps[i + 1].render(R)
            R.bound("sib")
    else:
        for i, it in enumerate(items):
            if i:
                R.raw(" ")
            kids.append(it.render(R))
    return kids


_SUGAR = {"quote": "'", "quasiquote": "`", "unquote": "~", "unquote-splice": "~@",
          "unpack-iterable": "#*", "unpack-mapping": "#**"}


class Sugar(Node):
    """'x `x ~x ~@x #* x #** x, or the corresponding long form (head x)."""

    def __init__(self, head, child, long=False, gap=None):
        self.head, self.child, self.long = head, child, long
        self.gap = gap or Gap()      # separators between the prefix and its operand

    def _long(self, R):
        return self.long if R.sugar == "chosen" else R.sugar == "long"

    def first(self, R):
        return "(" if self._long(R) else _SUGAR[self.head][0]

    def render(self, R):
        a = R.here(self.first(R))
        if self._long(R):
            R.raw("(")
            R.push(("H", "expr", ")", None))
            R.token(self.head)
            h = sym(self.head)
            h["span"] = [a + 1, len(R.buf) - 1]
            R.raw(" ")
            c = self.child.render(R)
            R.raw(")")
            R.pop()
            R.tags.add("long:" + self.head)
        else:
            pre = _SUGAR[self.head]
            R.punct(pre)
            R.push(("S", self.head, 1))
            h = sym(self.head, own=False)
            R.bound("hash" if pre[0] == "#" else "tilde" if pre == "~" else None)
            if R.seps == "rich" and self.gap.elts:
                self.gap.render(R)
                R.tags.add("sugar-ws")
                if self.gap.has_noise():
                    R.tags.add("sugar-noise")
            c = self.child.render(R)
            R.pop()
            R.tags.add("sugar:" + pre)
        s = mk("Expression", None, [h, c])
        s["span"] = [a, len(R.buf) - 1]
        return s


class Annot(Node):
    """#^ TYPE TARGET, or the long form (annotate TARGET TYPE)."""

    def __init__(self, typ, target, long=False, gap1=None, gap2=None):
        self.typ, self.target, self.long = typ, target, long
        self.gap1 = gap1 or Gap()    # between #^ and the type
        self.gap2 = gap2 or Gap()    # between the type and the target

    def _long(self, R):
        return self.long if R.sugar == "chosen" else R.sugar == "long"

    def first(self, R):
        return "(" if self._long(R) else "#"

    def render(self, R):
        a = R.here(self.first(R))
        if self._long(R):
            R.raw("(")
            R.push(("H", "expr", ")", None))
            R.token("annotate")
            h = sym("annotate")
            h["span"] = [a + 1, len(R.buf) - 1]
            R.raw(" ")
            tg = self.target.render(R)
            R.raw(" ")
            ty = self.typ.render(R)
            R.raw(")")
            R.pop()
            R.tags.add("long:annotate")
            s = mk("Expression", None, [h, tg, ty])
        else:
            R.punct("#^")
            R.push(("S", "annotate", 2))
            h = sym("annotate", own=False)
            rich = R.seps == "rich"
            R.bound("hash")
            if rich and self.gap1.elts:
                self.gap1.render(R)
            ty = self.typ.render(R)
            R.retop(("S", "annotate", 1))
            R.bound("sib")
            if rich:
                self.gap2.render(R)
                if self.gap1.has_noise() or self.gap2.has_noise():
                    R.tags.add("sugar-noise")
            else:
                R.raw(" ")
            tg = self.target.render(R)
            R.pop()
            R.tags.add("sugar:#^")
            s = mk("Expression", None, [h, tg, ty])
            s["noorder"] = True
        s["span"] = [a, len(R.buf) - 1]
        return s


class Top:
    """A whole program: top-level forms and len(items)+1 gaps."""

    def __init__(self, items, gaps):
        self.items, self.gaps = items, gaps


# =============================================================================
# rendering
# =============================================================================

class Rendered:
    """Result of render(); see the module docstring.  as_case() gives a
    JSON-serialisable dict, from_case() restores it."""

    FIELDS = ("text", "models", "cuts", "fparts", "fdebug", "tags", "lines", "maxdepth",
              "tail_comment", "noise")

    def __init__(self, **kw):
        for k in self.FIELDS:
            setattr(self, k, kw.get(k))

    def as_case(self, cuts=True):
        d = {k: getattr(self, k) for k in self.FIELDS}
        if not cuts:
            d.pop("cuts")
        return d

    @classmethod
    def from_case(cls, d):
        return cls(**{k: d.get(k) for k in cls.FIELDS})


def render(tree, seps="rich", sugar="chosen", cuts=True):
    """Render a Top.  seps: "rich" (the gaps as generated) or "single" (one
    space between siblings, nothing else).  sugar: "chosen" | "long" | "short"."""
    R = Recorder()
    R.seps, R.sugar = seps, sugar
    models = _render_items(R, tree.items, tree.gaps)
    R._pending = None
    text = R.text()
    last = tree.gaps[-1].elts[-1] if (seps == "rich" and tree.gaps[-1].elts) else None
    tail_comment = bool(last and last[0] == "com" and last[2] == "")
    noise = 0
    if seps == "rich":
        noise = _count_noise(tree)
    return Rendered(text=text, models=models, cuts=R.cut_labels() if cuts else None,
                    fparts=R.fparts, fdebug=R.fdebug, tags=sorted(R.tags), lines=text.count("\n") + 1,
                    maxdepth=R.maxdepth, tail_comment=tail_comment, noise=noise)


def _count_noise(tree):
    """Number of comments/discards that sit in a gap of a *nested* sequence."""
    n = 0

    def gapnoise(g, nested):
        nonlocal n
        for e in g.elts:
            if e[0] != "ws" and nested:
                n += 1
            if e[0] == "dis":
                gapnoise(e[2], nested)
                walk(e[3], True)

    def walk(node, nested):
        nonlocal n
        if isinstance(node, (Seq, Top)):
            for g in node.gaps:
                gapnoise(g, nested)
            for it in node.items:
                walk(it, True)
        elif isinstance(node, Sugar):
            gapnoise(node.gap, nested)
            walk(node.child, nested)
        elif isinstance(node, Annot):
            gapnoise(node.gap1, nested)
            gapnoise(node.gap2, nested)
            walk(node.typ, nested)
            walk(node.target, nested)
        elif isinstance(node, FStr):
            for p in node.parts:
                if isinstance(p, Field) and not p.debug:
                    walk(p.form, nested)
    walk(tree, False)
    return n


# =============================================================================
# generator
# =============================================================================

class GenConfig:
    """Knobs of the generator.
    size      approximate number of nodes, depth  maximum nesting,
    multiline probability weight of newlines in gaps,
    noise     probability of a comment/discard in a gap,
    top       range of the number of top-level forms."""

    def __init__(self, size=14, depth=4, multiline=0.3, noise=0.25, top=(1, 4),
                 fstring=1.0, hostile=0.15):
        self.size, self.depth, self.multiline, self.noise = size, depth, multiline, noise
        self.top, self.fstring, self.hostile = top, fstring, hostile
        self.left = size


_LETTERS = "abcdefghijklmnopqrstuvwxyz"
_SYM_POOL = ["a", "b", "c", "x", "y", "foo", "bar", "foo-bar", "x1", "*args*", "+", "-", "->",
             "<=", "None", "True", "False", "hello?", "set!", "$40", "3fiddy", "\u03bb", "just\u2708wrong",
             "_", "__x", "__init__", "if", "def", "&rest", "@a", "%", "a#b", "a:b", "x=", "!",
             "e5", "j", "/", "//", "=", "a!r", "*", "**", "a\u2009b", "x\u2028y", "n\u0085l",
             "|", "^", "&", "<", ">", "A_B", "1+", "q?", "_1", "0x", "1e"]
_SYM_CHARS = "abcxyzABC019-_?!*+/<>=&$%^|@#:λé✈"
_PART_POOL = ["a", "b", "foo", "bar-baz", "x1", "_p", "__d__", "Q", "is?", "λ", "m2"]


def _numeric_like(s):
    t = s[:1] + s[1:].replace("_", "").replace(",", "")
    for f in (lambda: int(t, 0), lambda: int(t), lambda: float(t), lambda: complex(t)):
        try:
            f()
            return True
        except (ValueError, OverflowError):
            pass
    return False


def gen_symbol_text(rng):
    if rng.random() < 0.7:
        return rng.choice(_SYM_POOL)
    while True:
        n = rng.randint(1, 6)
        s = "".join(rng.choice(_SYM_CHARS) for _ in range(n))
        if s[0] in ":#" or _numeric_like(s) or _numeric_like(s.lstrip("+-")):
            continue
        return s


def gen_symbol(rng):
    s = gen_symbol_text(rng)
    return Atom(s, sym(s), "symbol")


def gen_keyword(rng):
    r = rng.random()
    if r < 0.1:
        name = ""
    elif r < 0.6:
        name = rng.choice(["a", "foo", "foo-bar", "k1", "+", "λ", "a:b", "#x", "if", "x!", ":"])
    else:
        name = "".join(rng.choice(_SYM_CHARS) for _ in range(rng.randint(1, 5)))
    return Atom(":" + name, mk("Keyword", name), "keyword")


def gen_dotted(rng):
    r = rng.random()
    if r < 0.12:
        s = "." * rng.randint(1, 4)
        return Atom(s, sym(s), "all-dots")
    lead = 0 if r < 0.6 else rng.choice([1, 1, 1, 2, 3])
    nparts = rng.randint(2 if lead == 0 else 1, 4)
    parts = [rng.choice(_PART_POOL) for _ in range(nparts)]
    text = "." * lead + ".".join(parts)
    if lead == 0:
        kids = [sym(".", own=False)] + [sym(p, own=False) for p in parts]
    else:
        kids = [sym("." * lead, own=False), sym("None", own=False)] + [sym(p, own=False) for p in parts]
    spec = mk("Expression", None, kids)
    spec["dotted"] = True
    return Atom(text, spec, "dotted" if lead == 0 else "dotted-lead")


def _inject_seps(rng, clean):
    """Insert , and _ at documented places: anywhere after the first digit."""
    if clean[0] not in "0123456789" or rng.random() < 0.6:
        return clean
    out = [clean[0]]
    for ch in clean[1:]:
        prev = out[-1]
        if prev not in "+-" and ch not in "+-" and rng.random() < 0.25:
            out.append(rng.choice(["_", ",", "__", "_,"]))
        out.append(ch)
    if rng.random() < 0.15:
        out.append(rng.choice("_,"))
    return "".join(out)


def gen_number(rng):
    r = rng.random()
    digs = lambda lo, hi: str(rng.randint(1, 9)) + "".join(
        rng.choice("0123456789") for _ in range(rng.randint(lo, hi)))
    sign = ""
    if r < 0.30:
        clean = rng.choice(["0", digs(0, 3), digs(3, 8)])
        kind = "int"
    elif r < 0.36:
        text = "0" * rng.randint(1, 3) + digs(0, 3)
        return Atom(text, mk("Integer", str(int(text))), "int:leading0")
    elif r < 0.50:
        base, alpha = rng.choice([("x", "0123456789abcdefABCDEF"), ("o", "01234567"), ("b", "01")])
        clean = "0" + rng.choice([base, base.upper()]) + "".join(
            rng.choice(alpha) for _ in range(rng.randint(1, 6)))
        kind = "int:radix"
    elif r < 0.72:
        clean = rng.choice([digs(0, 2) + "." + digs(0, 2), "." + digs(0, 2), digs(0, 2) + ".",
                            digs(0, 1) + rng.choice("eE") + rng.choice(["", "-", "+"]) + str(rng.randint(0, 12)),
                            digs(0, 1) + "." + digs(0, 1) + "e" + str(rng.randint(0, 9))])
        kind = "float"
    elif r < 0.80:
        text = rng.choice(["NaN", "Inf", "-Inf"])
        return Atom(text, mk("Float", repr(float(text))), "float:special")
    elif r < 0.90:
        clean = rng.choice([digs(0, 2), digs(0, 1) + "." + digs(0, 1), digs(0, 0) + "e" + str(rng.randint(0, 5))]) \
            + rng.choice("jJ")
        kind = "imag"
    else:
        clean = rng.choice([digs(0, 1), digs(0, 0) + "." + digs(0, 1)]) + rng.choice("+-") \
            + rng.choice([digs(0, 1), digs(0, 0) + "." + digs(0, 0)]) + "j"
        kind = "complex"
    if rng.random() < 0.25:
        sign = rng.choice(["-", "-", "+"])
    if kind in ("complex",):
        val = complex(sign + clean)
    else:
        val = ast.literal_eval(clean)
        if sign == "-":
            val = -val
    text = sign + (_inject_seps(rng, clean) if not sign else clean)
    if isinstance(val, int):
        spec = mk("Integer", str(val))
    elif isinstance(val, float):
        spec = mk("Float", repr(val))
    else:
        spec = mk("Complex", [repr(val.real), repr(val.imag)])
    if text != sign + clean:
        kind += "+sep"
    return Atom(text, spec, kind)


_PLAIN = "abcxyz ABC 0123 .,:;!?'()[]#~`@$%^&*-+=<>/|_"
_NONASCII = ["é", "ß", "☃", "λ", "😀", " ", "中"]
_ESC_STR = [("\\\\", "\\"), ('\\"', '"'), ("\\'", "'"), ("\\n", "\n"), ("\\t", "\t"), ("\\r", "\r"),
            ("\\a", "\a"), ("\\b", "\b"), ("\\f", "\f"), ("\\v", "\v"), ("\\000", "\0"),
            ("\\101", "A"), ("\\x41", "A"), ("\\xe9", "é"), ("\\u00e9", "é"), ("\\u2603", "☃"),
            ("\\U0001F600", "😀"), ("\\N{DIGIT ONE}", "1"), ("\\N{SNOWMAN}", "☃")]
_ESC_BYTES = [("\\\\", "\\"), ('\\"', '"'), ("\\'", "'"), ("\\n", "\n"), ("\\t", "\t"), ("\\000", "\0"),
              ("\\101", "A"), ("\\x41", "A"), ("\\xff", "\xff")]
_NEWLINES = [("\n", "\n"), ("\r\n", "\n"), ("\r", "\n")]


def _fix_crlf(pieces):
    """Drop a piece starting with LF right after a piece ending in CR (the two
    would fuse into one CRLF newline and change the expected value)."""
    out = []
    for p in pieces:
        if out and out[-1][0].endswith("\r") and p[0].startswith("\n"):
            continue
        out.append(p)
    return out


def _string_pieces(rng, prefix, cfg, fstring=False, n=None):
    """Pieces [(source, value)] for a double-quoted literal body."""
    raw, byt = "r" in prefix, "b" in prefix
    out = []
    for _ in range(rng.randint(0, 5) if n is None else n):
        r = rng.random()
        if r < 0.5:
            ch = rng.choice(_PLAIN)
            if fstring and ch in "{}":
                continue
            out.append((ch, ch))
        elif r < 0.6 and not byt:
            ch = rng.choice(_NONASCII)
            out.append((ch, ch))
        elif r < 0.6 + 0.25 * cfg.multiline + 0.05:
            out.append(rng.choice(_NEWLINES))
        elif r < 0.9:
            if raw:
                p = rng.choice(["\\d", "\\\\", '\\"', "\\ ", "\\n", "\\x4"])
                if out and out[-1][0].endswith("\\"):
                    continue
                out.append((p, p))
            else:
                src, val = rng.choice(_ESC_BYTES if byt else _ESC_STR)
                if fstring and src == "\\\\":
                    # keep "\\" away from a following N{ (named-escape detection is C24's)
                    out.append((src + "-", val + "-"))
                else:
                    out.append((src, val))
        elif r < 0.95 and not raw:
            nl = rng.choice(["\n", "\r\n", "\r"])
            out.append(("\\" + nl, ""))     # line continuation
        elif fstring:
            out.append(rng.choice([("{{", "{"), ("}}", "}")]))
        else:
            out.append(rng.choice([("{", "{"), ("}", "}"), ("{x}", "{x}")]))
    if raw:
        # a raw body must not end in an odd number of backslashes
        while out and (len(out[-1][0]) - len(out[-1][0].rstrip("\\"))) % 2:
            out.pop()
    return _fix_crlf(out)


def gen_string(rng, cfg):
    prefix = rng.choice(["", "", "", "r", "b", "br", "rb"])
    return Str(prefix, _string_pieces(rng, prefix, cfg))


_DELIMS = ["", "=", "==", "foo", "foo", "end", "a b", "x\"y", "(", "é", "--", "F", "ff", "t", "b", "abab"]


def _false_start(rng, delim):
    """Text that begins like the closer ]delim] but is not it: `]`, `]fo`,
    `]fo]`, `]foo` + another character, `]fo]fo` ... (the caller still checks
    that the closer proper does not occur)."""
    fs = "]" + delim[:rng.randint(0, len(delim))]
    r = rng.random()
    if r < 0.3:
        return fs
    if r < 0.55:
        return fs + "]"
    if r < 0.8:
        return fs + rng.choice("xz d")
    return fs + "]" + delim[:rng.randint(0, len(delim))]


def gen_bstr(rng, cfg):
    delim = rng.choice(_DELIMS)
    closer = "]" + delim + "]"
    while True:
        parts = []
        if rng.random() < 0.35:
            parts.append(rng.choice(["\n", "\r\n", "\r", "\n\n", "\r\n\n"]))
        for _ in range(rng.randint(0, 6)):
            r = rng.random()
            if r < 0.45:
                parts.append(rng.choice(_PLAIN + '"\\{}'))
            elif r < 0.6:
                parts.append(rng.choice(_NONASCII))
            elif r < 0.8:
                parts.append(rng.choice([_false_start(rng, delim), _false_start(rng, delim), "[", "]" + delim]))
            else:
                parts.append(rng.choice(["\n", "\r\n", "\r"]))
        if delim and rng.random() < 0.4:
            parts.append(_false_start(rng, delim))     # a false start right before the closer
        body = "".join(parts)
        if (body + closer).find(closer) == len(body):
            break
    rest = body
    if rest.startswith("\r\n"):
        rest = rest[2:]
    elif rest[:1] in ("\r", "\n"):
        rest = rest[1:]
    value = rest.replace("\r\n", "\n").replace("\r", "\n")
    return BStr(delim, body, value)


_SPEC_CHARS = "<>^+-0123456789.,_dxf% ab"
_HWS = ["", "", " ", " ", "  ", "\t"]


def _gen_ws(rng, cfg, allow_empty=True):
    r = rng.random()
    if r < 0.35 and allow_empty:
        return ""
    if r < 0.7:
        return " "
    if r < 0.7 + 0.3 * cfg.multiline:
        return rng.choice(["\n", "\r\n", "\n  ", "\r", "\n\t"])
    return rng.choice(["  ", "\t", "\f", "\v", " \t ", "\n"])


def gen_field(rng, cfg, depth, raw, nest):
    form = gen_form(rng, cfg, depth + 1, infield=True)
    debug = rng.random() < 0.22
    f = Field(form)
    f.ws_before = rng.choice(_HWS) if debug else _gen_ws(rng, cfg)
    if not debug and rng.random() < 0.1:
        f.pre = gen_gap(rng, cfg, depth + 1, force_noise=True)
    f.debug = debug
    if debug:
        f.ws_between = rng.choice(_HWS)
        f.ws_eq = rng.choice(_HWS)
    else:
        f.ws_between = _gen_ws(rng, cfg) if rng.random() < 0.4 else ""
    if rng.random() < 0.3:
        f.conv = rng.choice("rsa")
        f.ws_conv = rng.choice(_HWS)
    if rng.random() < 0.35:
        spec = []
        for _ in range(rng.randint(0, 4)):
            if nest > 0 and rng.random() < 0.4:
                spec.append(gen_field(rng, cfg, depth + 1, raw, nest - 1))
            else:
                s = "".join(rng.choice(_SPEC_CHARS) for _ in range(rng.randint(1, 3)))
                spec.append(Lit([(s, s)]))
        # merge adjacent literals (a spec has maximal literal runs)
        merged = []
        for p in spec:
            if merged and isinstance(p, Lit) and isinstance(merged[-1], Lit):
                merged[-1] = Lit(merged[-1].pieces + p.pieces)
            else:
                merged.append(p)
        f.spec = merged
    return f


def gen_fstring(rng, cfg, depth):
    """An f-string node.  A bracket f-string whose text would contain its own
    closer anywhere before the end (e.g. inside a nested form) is re-drawn:
    the FString constructor refuses such models, which is C26's business."""
    for _ in range(20):
        node = _gen_fstring(rng, cfg, depth)
        if node.delim is None:
            return node
        t = render(Top([node], [Gap(), Gap()]), cuts=False).text
        closer = "]" + node.delim + "]"
        if t.find(closer) == len(t) - len(closer):
            return node
    return FStr([Lit([("a", "a")]), Field(Atom("x", sym("x"), "symbol"))], "f", node.delim)


def _gen_fstring(rng, cfg, depth):
    r = rng.random()
    if r < 0.2:
        delim = rng.choice(["f", "f", "f-x", "f-", "f-=="])
        prefix, raw = "f", True
    else:
        delim = None
        prefix = rng.choice(["f", "f", "f", "f", "rf", "fr", "t"])
        raw = "r" in prefix
    parts = []
    tstr = prefix == "t"
    for _ in range(rng.randint(1, 5)):
        if rng.random() < 0.5:
            if delim is not None:
                pcs = []
                for _ in range(rng.randint(1, 4)):
                    ch = rng.choice(_PLAIN.replace("]", "") + '"\n\\')
                    pcs.append((ch, ch))
                if rng.random() < 0.3:
                    pcs.append(rng.choice([("{{", "{"), ("}}", "}"), ("\r\n", "\n"), ("\r", "\n")]))
                if rng.random() < 0.45:
                    fs = _false_start(rng, delim)     # looks like the start of ]delim]
                    pcs.append((fs, fs))
            else:
                pcs = _string_pieces(rng, "r" if raw else "", cfg, fstring=True, n=rng.randint(1, 4))
            if parts and isinstance(parts[-1], Lit):
                parts[-1] = Lit(parts[-1].pieces + pcs)
            else:
                parts.append(Lit(pcs))
        else:
            parts.append(gen_field(rng, cfg, depth, raw, 0 if tstr else 2))
    for p in parts:
        if isinstance(p, Lit):
            p.pieces = _fix_crlf(p.pieces)
    if delim is not None and parts and isinstance(parts[0], Lit):
        # a bracket f-string drops one leading newline like any bracket string
        while parts[0].pieces and parts[0].pieces[0][0][:1] in ("\r", "\n"):
            parts[0].pieces.pop(0)
    if raw and delim is None:
        # raw body: no literal part may end in an odd number of backslashes
        for p in parts:
            if isinstance(p, Lit):
                while p.pieces and (len(p.pieces[-1][0]) - len(p.pieces[-1][0].rstrip("\\"))) % 2:
                    p.pieces.pop()
    return FStr(parts, prefix, delim)


def gen_gap(rng, cfg, depth, force_noise=False, top=False):
    elts = []
    n = rng.choice([0, 1, 1, 1, 2, 3])
    if force_noise:
        n = max(n, 1)
    for i in range(n):
        r = rng.random()
        if (force_noise and i == 0) or r < cfg.noise:
            if rng.random() < 0.55:
                txt = "".join(rng.choice(' abc"()[]{}#_;\\\'~`é:.') for _ in range(rng.randint(0, 8)))
                if rng.random() < 0.15:
                    txt += rng.choice(["#_ x", "(unclosed", '"open', "\tcr", "#[["])
                elts.append(("com", txt, rng.choice(["\n", "\n", "\r\n"])))
            else:
                save = cfg.left
                cfg.left = min(cfg.left, 3)
                inner = Gap()
                if rng.random() < 0.25:
                    inner = gen_gap(rng, cfg, depth + 1, force_noise=True)
                form = gen_form(rng, cfg, max(depth, cfg.depth - 1))
                cfg.left = save
                elts.append(("dis", _gen_ws(rng, cfg), inner, form))
        else:
            elts.append(("ws", _gen_ws(rng, cfg, allow_empty=False)))
    return Gap(elts)


def _gen_prefix_gap(rng, cfg, depth):
    """Separators between a sugar prefix (' ` ~ ~@ #* #** #^) and its operand:
    mostly nothing, else whitespace, else the full mix (comments, discards)."""
    r = rng.random()
    if r < 0.5:
        return Gap()
    if r < 0.75:
        return Gap([("ws", _gen_ws(rng, cfg, allow_empty=False))])
    return gen_gap(rng, cfg, depth + 1, force_noise=rng.random() < 0.6)


def gen_seq(rng, cfg, depth, kind=None):
    kind = kind or rng.choice(["expr", "expr", "expr", "list", "list", "dict", "set", "tuple"])
    n = rng.choice([0, 1, 2, 2, 3, 3, 4, 5]) if cfg.left > 0 else rng.choice([0, 1])
    items = [gen_form(rng, cfg, depth + 1) for _ in range(n)]
    gaps = [gen_gap(rng, cfg, depth + 1) for _ in range(n + 1)]
    return Seq(kind, items, gaps)


def gen_atom(rng, cfg):
    r = rng.random()
    if r < 0.38:
        return gen_symbol(rng)
    if r < 0.58:
        return gen_number(rng)
    if r < 0.70:
        return gen_keyword(rng)
    if r < 0.84:
        return gen_dotted(rng)
    if r < 0.94:
        return gen_string(rng, cfg)
    return gen_bstr(rng, cfg)


def gen_form(rng, cfg, depth, infield=False):
    cfg.left -= 1
    if depth >= cfg.depth or cfg.left <= 0:
        return gen_atom(rng, cfg)
    r = rng.random()
    if r < 0.30:
        return gen_atom(rng, cfg)
    if r < 0.62:
        return gen_seq(rng, cfg, depth)
    if r < 0.80:
        head = rng.choice(list(_SUGAR))
        child = gen_form(rng, cfg, depth + 1)
        return Sugar(head, child, long=rng.random() < 0.25, gap=_gen_prefix_gap(rng, cfg, depth))
    if r < 0.86:
        typ = gen_form(rng, cfg, depth + 1)
        target = gen_form(rng, cfg, depth + 1)
        gap2 = _gen_prefix_gap(rng, cfg, depth)
        if not gap2.elts:
            gap2 = Gap([("ws", rng.choice([" ", " ", "\n", "  "]))])
        return Annot(typ, target, long=rng.random() < 0.25,
                     gap1=_gen_prefix_gap(rng, cfg, depth), gap2=gap2)
    if r < 0.86 + 0.12 * cfg.fstring:
        return gen_fstring(rng, cfg, depth)
    return gen_string(rng, cfg)


def gen_program(rng, cfg=None):
    """A random well-formed program (Top)."""
    cfg = cfg or GenConfig()
    cfg.left = cfg.size
    n = rng.randint(*cfg.top)
    items = []
    for _ in range(n):
        items.append(gen_form(rng, cfg, 0))
    gaps = [gen_gap(rng, cfg, 0, top=True) for _ in range(n + 1)]
    if rng.random() < 0.1:
        gaps[-1].elts.append(("com", " trailing", ""))   # unterminated last comment
    return Top(items, gaps)


# =============================================================================
# scanner: labels for arbitrary well-formed text
# =============================================================================

class ScanError(Exception):
    pass


class Scan:
    """Result of scan(): text, cuts (as Rendered.cuts), forms = [[start,
    end_incl, produces_model]] for top-level forms, gaps = [[offset, depth,
    infield]] positions between sibling forms, fparts / fdebug (as in Rendered)."""

    def __init__(self, text, cuts, forms, gaps, fparts, maxdepth, fdebug=()):
        self.text, self.cuts, self.forms, self.gaps = text, cuts, forms, gaps
        self.fparts, self.maxdepth, self.fdebug = fparts, maxdepth, list(fdebug)


class _Scanner:
    def __init__(self, text):
        self.t, self.i, self.n = text, 0, len(text)
        self.R = Recorder()
        self.forms, self.gaps = [], []

    def peek(self, k=0):
        j = self.i + k
        return self.t[j] if j < self.n else ""

    def raw(self, k=1):
        self.R.raw(self.t[self.i:self.i + k])
        self.i += k

    def tok(self, k):
        self.R.token(self.t[self.i:self.i + k])
        self.i += k

    def punct(self, k):
        self.R.punct(self.t[self.i:self.i + k])
        self.i += k

    def ws(self):
        while self.peek() and self.peek() in WS:
            self.raw()

    def _infield(self):
        return int(any(e[0] == "H" and e[1] == "field" for e in self.R.stack))

    def forms_until(self, closer, top=False):
        while True:
            self.ws()
            depth = sum(1 for e in self.R.stack if e[0] == "H")
            self.gaps.append([self.i, depth, self._infield()])
            c = self.peek()
            if not c:
                if closer:
                    raise ScanError("unterminated sequence")
                return
            if closer and c == closer:
                return
            a = self.i
            made = self.form()
            if top:
                self.forms.append([a, self.i - 1, made])

    def one_form(self):
        while True:
            self.ws()
            if not self.peek():
                raise ScanError("missing form")
            if self.form():
                return

    def ident_len(self):
        j = self.i
        while j < self.n and self.t[j] not in NON_IDENT and self.t[j] not in WS:
            j += 1
        return j - self.i

    def form(self):
        c = self.peek()
        R = self.R
        if c == ";":
            while self.peek() and self.peek() != "\n":
                self.raw()
            if self.peek():
                self.raw()
            return False
        if c in "([{":
            cl = {"(": ")", "[": "]", "{": "}"}[c]
            self.raw()
            R.push(("H", "seq", cl, None))
            self.forms_until(cl)
            self.raw()
            R.pop()
            return True
        if c in ")]}":
            raise ScanError("stray closer")
        if c == '"':
            self.string("")
            return True
        if c in "'`":
            self.raw()
            R.push(("S", "quote", 1))
            self.one_form()
            R.pop()
            return True
        if c == "~":
            if self.peek(1) == "@":
                self.punct(2)
            else:
                self.raw()
            R.push(("S", "unquote", 1))
            self.one_form()
            R.pop()
            return True
        if c == "#":
            self.i += 1
            k = self.ident_len()
            self.i -= 1
            ident = self.t[self.i + 1:self.i + 1 + k] if k else self.peek(1)
            if ident in ("(", "{"):
                cl = ")" if ident == "(" else "}"
                self.punct(2)
                R.push(("H", "seq", cl, None))
                self.forms_until(cl)
                self.raw()
                R.pop()
                return True
            if ident == "[":
                self.bracket_string()
                return True
            if ident == "_":
                self.punct(2)
                R.push(("S", "discard", 1))
                self.one_form()
                R.pop()
                return False
            if ident in ("*", "**"):
                self.punct(1 + len(ident))
                R.push(("S", "unpack", 1))
                self.one_form()
                R.pop()
                return True
            if ident == "^":
                self.punct(2)
                R.push(("S", "annotate", 2))
                self.one_form()
                R.retop(("S", "annotate", 1))
                self.one_form()
                R.pop()
                return True
            raise ScanError(f"reader macro #{ident}")
        k = self.ident_len()
        if k == 0:
            raise ScanError(f"unexpected {c!r}")
        if self.peek(k) == '"':
            self.string(self.t[self.i:self.i + k])
        else:
            self.tok(k)
        return True

    def string(self, prefix):
        R = self.R
        if prefix:
            if not (set(prefix) <= set("bfrt")) or len(set(prefix)) != len(prefix):
                raise ScanError("bad string prefix")
        self.tok(len(prefix) + 1)
        if "f" in prefix or "t" in prefix:
            R.push(("H", "fstr", '"', None))
            self.fbody('"', "r" in prefix)
        else:
            R.push(("H", "str", '"', None))
            while True:
                c = self.peek()
                if not c:
                    raise ScanError("unterminated string")
                if c == "\\":
                    if not self.peek(1):
                        raise ScanError("unterminated string")
                    self.raw(2)
                elif c == '"':
                    self.raw()
                    break
                else:
                    self.raw()
        R.pop()

    def bracket_string(self):
        R = self.R
        self.punct(2)
        j = self.i
        while j < self.n and self.t[j] not in "[]":
            j += 1
        if j >= self.n or self.t[j] != "[":
            raise ScanError("bad bracket string")
        delim = self.t[self.i:j]
        closer = "]" + delim + "]"
        isf = delim == "f" or delim.startswith("f-")
        R.push(("H", "fstr" if isf else "bstr", closer, None))
        self.raw(j - self.i + 1)
        if isf:
            self.fbody(closer, True)
        else:
            e = self.t.find(closer, self.i)
            if e < 0:
                raise ScanError("unterminated bracket string")
            self.raw(e - self.i + len(closer))
        R.pop()

    def fbody(self, closer, israw):
        """Literal parts and fields up to and including closer."""
        R = self.R
        nlit = 0
        after_field = 0
        start = None

        def endlit():
            nonlocal start, nlit
            if start is not None and self.i > start:
                R.fparts.append([start, self.i - 1, nlit, after_field])
                nlit += 1
            start = None

        while True:
            c = self.peek()
            if not c:
                raise ScanError("unterminated f-string")
            if self.t.startswith(closer, self.i):
                endlit()
                self.raw(len(closer))
                return
            if start is None:
                start = self.i
            if c == "\\" and not israw:
                if self.peek(1) == "N" and self.peek(2) == "{":
                    e = self.t.find("}", self.i)
                    if e < 0:
                        raise ScanError("bad named escape")
                    self.raw(e - self.i + 1)
                else:
                    if not self.peek(1):
                        raise ScanError("unterminated f-string")
                    self.raw(2)
            elif c == "\\" and closer == '"':
                self.raw(2 if self.peek(1) else 1)
            elif c == "{":
                if self.peek(1) == "{":
                    self.tok(2)
                else:
                    endlit()
                    self.field(israw)
                    after_field = 1
            elif c == "}":
                if self.peek(1) == "}":
                    self.tok(2)
                else:
                    raise ScanError("single }")
            else:
                self.raw()

    def field(self, israw):
        R = self.R
        self.raw()
        R.push(("H", "field", "}", "pre"))
        self.one_form()
        R.retop(("H", "field", "}", "post"))
        self.ws()
        if self.peek() == "=":
            R.fdebug.append(self.i)
            self.raw()
            self.ws()
        if self.peek() == "!":
            if not self.peek(1):
                raise ScanError("bad conversion")
            self.raw(2)
        self.ws()
        if self.peek() == ":":
            self.raw()
            R.retop(("H", "field", "}", "spec"))
            self.fbody("}", israw)
        elif self.peek() == "}":
            self.raw()
        else:
            raise ScanError("junk in field")
        R.pop()


def scan(text):
    """Label an arbitrary well-formed Hy text.  Raises ScanError when the text
    is not well-formed for this scanner (e.g. uses a custom reader macro)."""
    s = _Scanner(text)
    s.forms_until("", top=True)
    if s.R.stack:
        raise ScanError("unbalanced")
    assert s.R.text() == text
    return Scan(text, s.R.cut_labels(), s.forms, s.gaps, s.R.fparts, s.R.maxdepth, s.R.fdebug)


# =============================================================================
# repository corpus
# =============================================================================

CORPUS_GLOBS = ("tests/native_tests/**/*.hy", "tests/resources/**/*.hy", "hy/**/*.hy")


def corpus_files(repo=None):
    repo = repo or os.environ.get("VERIF_REPO", "/repo")
    out = set()
    for g in CORPUS_GLOBS:
        out.update(glob.glob(os.path.join(repo, g), recursive=True))
    return sorted(out)


def load_corpus(repo=None, max_len=None):
    """Top-level forms of all *.hy files of the tree under test, as dicts
    {file (relative), index, text}.  Files are split with the scanner; a file
    is used up to the first place the scanner cannot follow (custom reader
    macros).  Only forms that produce a model are returned."""
    repo = repo or os.environ.get("VERIF_REPO", "/repo")
    out = []
    for path in corpus_files(repo):
        try:
            with open(path, encoding="utf-8", newline="") as f:
                src = f.read()
        except (OSError, UnicodeDecodeError):
            continue
        s = _Scanner(src)
        try:
            s.forms_until("", top=True)
        except (ScanError, IndexError):
            pass
        rel = os.path.relpath(path, repo)
        for idx, (a, b, made) in enumerate(s.forms):
            if made and (max_len is None or b - a + 1 <= max_len):
                out.append({"file": rel, "index": idx, "text": src[a:b + 1]})
    return out


# =============================================================================
# reading with the tree under test
# =============================================================================

def read_outcome(text):
    """('ok', models) | ('premature', exc) | ('lex', exc) | ('other', exc)."""
    from hy.reader import read_many
    from hy.reader.exceptions import LexException, PrematureEndOfInput
    try:
        return "ok", list(read_many(text))
    except PrematureEndOfInput as e:
        return "premature", e
    except LexException as e:
        return "lex", e
    except Exception as e:     # noqa: BLE001 - the outcome class is the observation
        if type(e).__name__ == "CaseTimeout":
            raise
        return "other", e


def describe_exc(e):
    return f"{type(e).__name__}: {getattr(e, 'msg', None) or e}"
