"""Fault-enumeration helpers shared by C09 (try/with at every raise point) and
C39 (hy.eval restores the caller's `hy`).

Part 1 (C09): a small program IR for `try`/`with` nestings with a logging site
at every point, two *independent* renderers (Hy source / Python twin source),
harness context managers that log enter/exit through the trace logger (which
is also the failpoint), plan enumeration over the events of a run.

Part 2 (C39): calling `hy.eval` from a scratch module in every argument mode,
snapshots of the `hy` entry of each caller-supplied dictionary.
"""
import itertools

from hv.common import E1, E2, Fault, Trace, token

FAULT_NAMES = ["ValueError", "KeyError", "E1", "E2"]
HANDLER_TYPES = ["ValueError", "KeyError", "LookupError", "E1", "E2", "Exception",
                 "BaseException", "Fault"]
RVARS = ["r1", "r2", "r3"]
CTXS = ["module", "fn", "loop", "discard"]
ALL_CTXS = CTXS + ["afn"]


# ---------------------------------------------------------------------------
# harness objects

class Sentinel:
    """Pre-bound value of the outer variable that shares the except variable's name."""


SENT = Sentinel()


class FCM:
    """Context manager logging enter/exit through the trace logger/failpoint.
    mode: 'plain' | 'supp' (suppresses Exception subclasses) | 'suppall'."""

    def __init__(self, tr, k, mode="plain", log_new=False):
        self.tr, self.k, self.mode = tr, k, mode
        if log_new:
            tr.L(f"{k}:new", None)

    def __enter__(self):
        self.tr.L(f"{self.k}:enter", None)
        return f"m{self.k}"

    def __exit__(self, et, ev, tb):
        self.tr.L(f"{self.k}:exit", ev)
        if et is None:
            return False
        if self.mode == "suppall":
            return True
        if self.mode == "supp":
            return issubclass(et, Exception)
        return False


class AFCM(FCM):
    """Asynchronous context manager; `sus` makes __aenter__/__aexit__ really suspend once."""

    def __init__(self, tr, k, mode="plain", log_new=False, sus=False):
        FCM.__init__(self, tr, k, mode, log_new)
        self.sus = sus

    async def __aenter__(self):
        if self.sus:
            import asyncio
            await asyncio.sleep(0)
        self.tr.L(f"{self.k}:aenter", None)
        return f"m{self.k}"

    async def __aexit__(self, et, ev, tb):
        if self.sus:
            import asyncio
            await asyncio.sleep(0)
        self.tr.L(f"{self.k}:aexit", ev)
        if et is None:
            return False
        if self.mode == "suppall":
            return True
        if self.mode == "supp":
            return issubclass(et, Exception)
        return False

    __enter__ = __exit__ = None


GROUP_FAULTS = ["G:VK", "G:N"]


def make_group(name, n):
    if name == "G:VK":
        return BaseExceptionGroup(f"f{n}", [ValueError(n), KeyError(n)])
    if name == "G:N":
        return BaseExceptionGroup(f"f{n}", [E1(n), BaseExceptionGroup(f"f{n}i", [KeyError(n), E2(n), ValueError(n)])])
    raise KeyError(name)


class Trace09(Trace):
    """The failpoint, extended with exception-group faults."""

    def L(self, k, v=None):
        exc = self.plan.get(self.n + 1)
        if exc is not None and exc.startswith("G:"):
            self.n += 1
            self.events.append([k, "!" + exc])
            raise make_group(exc, self.n)
        return Trace.L(self, k, v)


def exc_tree(e):
    """Type tree with leaf identity tokens of an escaping exception (groups recursively)."""
    if isinstance(e, BaseExceptionGroup):
        return [type(e).__name__, e.message, [exc_tree(x) for x in e.exceptions]]
    return [type(e).__name__, [token(a) for a in getattr(e, "args", ())][:3]]


def run_coro(coro):
    import asyncio
    return asyncio.run(coro)


CTORS = {("plain", False): "CM", ("supp", False): "CMS", ("suppall", False): "CMA",
         ("plain", True): "NCM", ("supp", True): "NCMS", ("suppall", True): "NCMA"}


def env09(tr):
    env = {"L": tr.L, "IDENT": lambda x: x, "E1": E1, "E2": E2, "Fault": Fault, "e": SENT}
    for (mode, new), name in CTORS.items():
        env[name] = (lambda mode, new: (lambda k: FCM(tr, k, mode, new)))(mode, new)
        env["A" + name] = (lambda mode, new: (lambda k: AFCM(tr, k, mode, new)))(mode, new)
        env["SA" + name] = (lambda mode, new: (lambda k: AFCM(tr, k, mode, new, True)))(mode, new)
    env["RUN"] = run_coro
    for r in RVARS:
        env[r] = r + "init"
    return env


# ---------------------------------------------------------------------------
# generator

class Gen09:
    def __init__(self, rng, max_depth=3, budget=26, star_p=0.0, group_p=0.0):
        self.star_p = star_p          # probability that a `try` uses except* handlers
        self.group_p = group_p        # probability that a raise form raises an exception group
        self.rng = rng
        self.max_depth = max_depth
        self.budget = budget
        self.sid = itertools.count(1)
        self.nid = itertools.count(1)

    def k(self):
        self.budget -= 1
        return next(self.sid)

    def leaf(self):
        k = self.k()
        return {"op": "L", "k": k, "e": {"op": "lit", "v": 100 + k}}

    def readable(self, sc):
        names = list(RVARS) + ["e", "u"] + sc["wvars"]
        hv = sc["hvars"]
        if hv and self.rng.random() < 0.7:
            return self.rng.choice(hv)
        return self.rng.choice(names)

    def form(self, d, sc):
        rng = self.rng
        deep = d < self.max_depth and self.budget > 0
        opts = [("L", 4), ("Lrd", 2.5), ("try", 3.2 if deep else 0), ("with", 3.2 if deep else 0),
                ("raise", 1.4), ("reraise", 1.2 if sc["in_handler"] else 0), ("set", 1.6),
                ("Lwrap", 1.0 if deep else 0), ("id", 0.5 if deep else 0),
                ("ret", 0.35 if sc["in_fn"] else 0), ("lit", 0.4)]
        kind = rng.choices([o for o, _ in opts], [w for _, w in opts])[0]
        if kind == "L":
            return self.leaf()
        if kind == "lit":
            return {"op": "lit", "v": rng.randint(0, 9)}
        if kind == "Lrd":
            return {"op": "L", "k": self.k(), "e": {"op": "rd", "n": self.readable(sc)}}
        if kind == "try":
            return self.try_form(d, sc)
        if kind == "with":
            return self.with_form(d, sc)
        if kind == "raise":
            if rng.random() < self.group_p:
                return {"op": "raiseg", "k": self.k(), "g": self.group(0)}
            return {"op": "raise", "t": rng.choice(FAULT_NAMES), "k": self.k()}
        if kind == "reraise":
            return {"op": "reraise"}
        if kind == "set":
            return {"op": "set", "n": rng.choice(RVARS), "x": rng.random() < 0.4,
                    "e": self.compound(d, sc) if (deep and rng.random() < 0.6) else self.leaf()}
        if kind == "Lwrap":
            return {"op": "L", "k": self.k(), "e": self.compound(d, sc)}
        if kind == "id":
            return {"op": "id", "e": self.compound(d, sc)}
        if kind == "ret":
            return {"op": "ret", "e": self.leaf() if rng.random() < 0.7 else self.form(d, sc)}
        raise AssertionError(kind)

    def group(self, depth):
        """Members of an exception group: leaf type names or nested member lists."""
        rng = self.rng
        out = []
        for _ in range(rng.randint(1, 3)):
            if depth < 2 and rng.random() < 0.3:
                out.append(self.group(depth + 1))
            else:
                out.append(rng.choice(FAULT_NAMES))
        return out

    def compound(self, d, sc):
        return self.try_form(d, sc) if self.rng.random() < 0.55 else self.with_form(d, sc)

    def forms(self, d, sc, lo=0, hi=3):
        return [self.form(d, sc) for _ in range(self.rng.randint(lo, hi))]

    def spec(self, last):
        rng = self.rng
        r = rng.random()
        if last and r < 0.22:
            return {"form": "all", "types": [], "logk": None}
        if r < 0.30:
            return {"form": "none", "types": [], "logk": None}
        if r < 0.68:
            sp = {"form": "single", "types": [rng.choice(HANDLER_TYPES)]}
        else:
            sp = {"form": "list", "types": rng.sample(HANDLER_TYPES, rng.randint(1, 3))}
        sp["logk"] = self.k() if rng.random() < 0.2 else None
        return sp

    def try_form(self, d, sc):
        rng = self.rng
        node = {"op": "try", "id": next(self.nid), "mb": None, "mf": None}
        markers = rng.random() < 0.8
        body = self.forms(d + 1, sc, 0, 3)
        if markers:
            node["mb"] = self.k()
            body.insert(0, {"op": "L", "k": node["mb"], "e": {"op": "lit", "v": 0}})
        node["b"] = body
        hs = []
        nh = rng.choice([0, 1, 1, 1, 2, 2, 3])
        star = rng.random() < self.star_p
        if star:
            nh = max(nh, 1)
        node["star"] = star
        for i in range(nh):
            sp = self.spec(last=(i == nh - 1))
            while star and sp["form"] == "all":     # `except*` needs a type
                sp = self.spec(last=False)
            var = None
            if sp["form"] != "all" and rng.random() < 0.55:
                var = rng.choice(["e", "e", "u"])
            sc2 = dict(sc, in_handler=True)
            if star:
                sc2["in_fn"] = False                # Python: no `return` in an except* block
            if var:
                sc2["hvars"] = sc["hvars"] + [var]
                sc2["hbound"] = sc["hbound"] | {var}
            hb = self.forms(d + 1, sc2, 0, 3)
            hs.append({"spec": sp, "var": var, "b": hb})
        node["hs"] = hs
        node["else"] = self.forms(d + 1, sc, 1, 2) if rng.random() < 0.35 else None
        fin = None
        if rng.random() < 0.55 or (not hs and rng.random() < 0.8):
            fin = self.forms(d + 1, sc, 0, 2)
            if node["mb"] is not None and rng.random() < 0.9:
                # marker pair: #executions of the finally marker must equal #entries of the body
                node["mf"] = self.k()
                fin.insert(0, {"op": "L", "k": node["mf"], "e": {"op": "lit", "v": 0}})
        node["fin"] = fin
        return node

    def with_form(self, d, sc):
        rng = self.rng
        node = {"op": "with", "id": next(self.nid)}
        n = rng.choice([1, 1, 2, 2, 3])
        ms = []
        wv = []
        for i in range(n):
            k = self.k()
            var = None
            if rng.random() < 0.6:
                if rng.random() < 0.12:
                    cand = [x for x in ("e", "u") if x not in sc["hbound"]]
                    var = rng.choice(cand) if cand else f"m{k}"
                else:
                    var = f"m{k}"
            mode = rng.choices(["plain", "supp", "suppall"], [5, 3, 1.5])[0]
            ms.append({"var": var, "k": k, "mode": mode, "stmt": rng.random() < 0.25,
                       "new": rng.random() < 0.3})
            if sc.get("in_async") and rng.random() < 0.6:
                ms[-1]["async"] = True
                ms[-1]["sus"] = rng.random() < 0.3
            if var and var.startswith("m"):
                wv.append(var)
        node["single"] = (n == 1 and ms[0]["var"] is None and rng.random() < 0.5)
        node["ms"] = ms
        sc2 = dict(sc, wvars=sc["wvars"] + wv)
        node["b"] = self.forms(d + 1, sc2, 0, 3)
        return node


def gen09(rng, ctx, max_depth=3, star=False):
    g = Gen09(rng, max_depth=max_depth, budget=rng.choice([10, 16, 22, 30]),
              star_p=0.7 if star else 0.0, group_p=0.5 if star else 0.0)
    sc = {"wvars": [], "hvars": [], "hbound": frozenset(), "in_handler": False,
          "in_fn": ctx in ("fn", "afn"), "in_async": ctx == "afn"}
    top = []
    if rng.random() < 0.25:
        top.append(g.form(0, sc))
    t = g.compound(0, sc)
    r = rng.random()
    if r < 0.15:
        t = {"op": "L", "k": g.k(), "e": t}
    elif r < 0.25:
        t = {"op": "id", "e": t}
    elif r < 0.45:
        t = {"op": "set", "n": rng.choice(RVARS), "x": True, "e": t}
    top.append(t)
    if rng.random() < 0.3:
        # read everything back after the construct: except variable invisible, sentinel intact
        for nm in rng.sample(["e", "u"] + RVARS, 2):
            top.insert(len(top) - 1, {"op": "L", "k": g.k(), "e": {"op": "rd", "n": nm}})
        top.append({"op": "L", "k": g.k(), "e": {"op": "rd", "n": rng.choice(["e"] + RVARS)}})
    return {"ctx": ctx, "forms": top}


# ---------------------------------------------------------------------------
# Hy renderer

def _hy_spec(sp, var):
    def ty(i, t):
        return f"(L {sp['logk']} {t})" if (i == 0 and sp.get("logk")) else t
    f = sp["form"]
    if f == "all":
        return "[]"
    if f == "none":
        inner = "[]"
    elif f == "single":
        inner = ty(0, sp["types"][0])
    else:
        inner = "[" + " ".join(ty(i, t) for i, t in enumerate(sp["types"])) + "]"
    return f"[{var} {inner}]" if var else f"[{inner}]"


def _ctor(m):
    base = CTORS[(m["mode"], m["new"])]
    if m.get("async"):
        return ("SA" if m.get("sus") else "A") + base
    return base


def _hy_group(members, name):
    """(BaseExceptionGroup "g7" [(ValueError "g7.0") (BaseExceptionGroup "g7.1" [...])])"""
    parts = []
    for i, m in enumerate(members):
        nm = f"{name}.{i}"
        parts.append(_hy_group(m, nm) if isinstance(m, list) else f'({m} "{nm}")')
    return f'(BaseExceptionGroup "{name}" [' + " ".join(parts) + "])"


def _py_group(members, name):
    parts = []
    for i, m in enumerate(members):
        nm = f"{name}.{i}"
        parts.append(_py_group(m, nm) if isinstance(m, list) else f"{m}('{nm}')")
    return f"BaseExceptionGroup('{name}', [" + ", ".join(parts) + "])"


def H(n):
    op = n["op"]
    if op == "lit":
        return str(n["v"])
    if op == "rd":
        return n["n"]
    if op == "L":
        return f"(L {n['k']} {H(n['e'])})"
    if op == "id":
        return f"(IDENT {H(n['e'])})"
    if op == "set":
        return f"({'setx' if n['x'] else 'setv'} {n['n']} {H(n['e'])})"
    if op == "raise":
        return f"(raise ({n['t']} \"r{n['k']}\"))"
    if op == "raiseg":
        return f"(raise {_hy_group(n['g'], 'g' + str(n['k']))})"
    if op == "reraise":
        return "(raise)"
    if op == "ret":
        return f"(return {H(n['e'])})"
    if op == "try":
        s = "(try" + "".join(" " + H(x) for x in n["b"])
        for h in n["hs"]:
            kw = "except*" if h.get("star", n.get("star")) else "except"
            s += f" ({kw} {_hy_spec(h['spec'], h['var'])}" + "".join(" " + H(x) for x in h["b"]) + ")"
        if n["else"] is not None:
            s += " (else" + "".join(" " + H(x) for x in n["else"]) + ")"
        if n["fin"] is not None:
            s += " (finally" + "".join(" " + H(x) for x in n["fin"]) + ")"
        return s + ")"
    if op == "with":
        items = []
        for m in n["ms"]:
            ctor = _ctor(m)
            ex = f"(do (setv tm{m['k']} {m['k']}) ({ctor} tm{m['k']}))" if m["stmt"] else f"({ctor} {m['k']})"
            pre = ":async " if m.get("async") else ""
            if n.get("single"):
                items.append(pre + ex)
            else:
                items.append(f"{pre}{m['var'] or '_'} {ex}")
        return "(with [" + " ".join(items) + "]" + "".join(" " + H(x) for x in n["b"]) + ")"
    raise AssertionError(op)


def render_hy(prog):
    ctx, forms = prog["ctx"], [H(f) for f in prog["forms"]]
    if ctx == "module":
        return "\n".join(forms[:-1] + [f"(setv RESULT {forms[-1]})"])
    if ctx == "discard":
        return "\n".join(forms + ["(setv RESULT None)"])
    if ctx == "fn":
        init = "(setv " + " ".join(f'{r} "{r}init"' for r in RVARS) + ")"
        return "(defn f []\n  " + "\n  ".join([init] + forms) + ")\n(setv RESULT (f))"
    if ctx == "afn":
        init = "(setv " + " ".join(f'{r} "{r}init"' for r in RVARS) + ")"
        return "(defn :async f []\n  " + "\n  ".join([init] + forms) + ")\n(setv RESULT (RUN (f)))"
    if ctx == "loop":
        body = forms[:-1] + [f"(.append RS {forms[-1]})"]
        return "(setv RS [])\n(for [i [0 1]]\n  " + "\n  ".join(body) + ")\n(setv RESULT RS)"
    raise AssertionError(ctx)


# ---------------------------------------------------------------------------
# Python twin renderer (written from the docs, independent of Hy's compiler)

IND = "    "
_DIAG = [False]      # render the diagnostic twin (see render_py)


def _is_effectful(e):
    return "(" in e


def _block(forms, target, out, ind, sc, bare):
    """Forms in sequence; the value of the last one is assigned to `target`."""
    n0 = len(out)
    for i, f in enumerate(forms):
        e = P(f, out, ind, sc, bare)
        if i == len(forms) - 1 and target:
            out.append(f"{ind}{target} = {e}")
        elif _is_effectful(e):
            out.append(f"{ind}{e}")
    if not forms and target:
        out.append(f"{ind}{target} = None")
    if len(out) == n0:
        out.append(f"{ind}pass")


def _py_spec(sp, bare):
    def ty(i, t):
        return f"L({sp['logk']}, {t})" if (i == 0 and sp.get("logk")) else t
    f = sp["form"]
    if f == "all":
        return "" if bare else " Exception"
    if f == "none":
        return " ()"
    if f == "single":
        return " " + ty(0, sp["types"][0])
    return " (" + "".join(ty(i, t) + ", " for i, t in enumerate(sp["types"])) + ")"


def P(n, out, ind, sc, bare):
    op = n["op"]
    if op == "lit":
        return repr(n["v"])
    if op == "rd":
        return sc.get(n["n"], n["n"])
    if op == "L":
        return f"L({n['k']}, {P(n['e'], out, ind, sc, bare)})"
    if op == "id":
        return f"IDENT({P(n['e'], out, ind, sc, bare)})"
    if op == "set":
        e = P(n["e"], out, ind, sc, bare)
        out.append(f"{ind}{n['n']} = {e}")
        return n["n"] if n["x"] else "None"
    if op == "raise":
        out.append(f"{ind}raise {n['t']}('r{n['k']}')")
        return "None"
    if op == "raiseg":
        out.append(f"{ind}raise {_py_group(n['g'], 'g' + str(n['k']))}")
        return "None"
    if op == "reraise":
        out.append(f"{ind}raise")
        return "None"
    if op == "ret":
        e = P(n["e"], out, ind, sc, bare)
        out.append(f"{ind}return {e}")
        return "None"
    if op == "try":
        rv = f"_r{n['id']}"
        out.append(f"{ind}{rv} = None")
        if not n["hs"] and n["fin"] is None and n["else"] is None:
            _block(n["b"], rv, out, ind, sc, bare)       # documented: like `do`
            return rv
        diag = _DIAG[0] and n.get("star") and n["hs"]
        if diag:
            out.append(f"{ind}_EXITED.discard({n['id']})")
        out.append(f"{ind}try:")
        _block(n["b"], rv, out, ind + IND, sc, bare)
        for i, h in enumerate(n["hs"]):
            sc2 = sc
            as_ = ""
            if h["var"]:
                tw = f"{h['var']}__{n['id']}_{i}"
                sc2 = dict(sc, **{h["var"]: tw})
                as_ = f" as {tw}"
            kw = "except*" if h.get("star", n.get("star")) else "except"
            out.append(f"{ind}{kw}{_py_spec(h['spec'], bare)}{as_}:")
            if _DIAG[0] and kw == "except*":
                # diagnostic twin: note when this handler's body is left by an exception
                fl = f"_hx{n['id']}_{i}"
                out.append(f"{ind}{IND}{fl} = False")
                out.append(f"{ind}{IND}try:")
                _block(h["b"], rv, out, ind + IND + IND, sc2, bare)
                out.append(f"{ind}{IND}{IND}{fl} = True")
                out.append(f"{ind}{IND}finally:")
                out.append(f"{ind}{IND}{IND}if not {fl}: _EXITED.add({n['id']})")
            else:
                _block(h["b"], rv, out, ind + IND, sc2, bare)
        if n["else"] is not None:
            if not n["hs"]:
                out.append(f"{ind}except ():")
                out.append(f"{ind}{IND}pass")
            out.append(f"{ind}else:")
            _block(n["else"], rv, out, ind + IND, sc, bare)
        if n["fin"] is not None:
            out.append(f"{ind}finally:")
            _block(n["fin"], None, out, ind + IND, sc, bare)
        if diag:
            # reached only when the try statement completed without an exception: by the
            # language reference that is impossible after an except* body raised
            out.append(f"{ind}if {n['id']} in _EXITED: _LOST.append({n['id']})")
        return rv
    if op == "with":
        # docs: "`with` returns the value of its last form, unless it suppresses an exception
        # ..., in which case it returns None".  A multi-item `with` is Python's nested `with`
        # (language reference); the value travels outwards one level at a time, so it is lost
        # exactly when some level suppressed an exception (raised by the body or by an inner
        # manager's __exit__).
        rv = f"_r{n['id']}"
        cur = ind
        lv = [rv] + [f"{rv}_{i}" for i in range(1, len(n["ms"]))]
        for i, m in enumerate(n["ms"]):
            out.append(f"{cur}{lv[i]} = None")
            ctor = _ctor(m)
            arg = str(m["k"])
            if m["stmt"]:
                out.append(f"{cur}tm{m['k']} = {m['k']}")
                arg = f"tm{m['k']}"
            as_ = f" as {sc.get(m['var'], m['var'])}" if m["var"] else ""
            out.append(f"{cur}{'async ' if m.get('async') else ''}with {ctor}({arg}){as_}:")
            cur += IND
        _block(n["b"], lv[-1], out, cur, sc, bare)
        for i in range(len(n["ms"]) - 1, 0, -1):
            cur = cur[:-len(IND)]
            out.append(f"{cur}{lv[i - 1]} = {lv[i]}")
        return rv
    raise AssertionError(op)


def render_py(prog, bare=True, diag=False):
    """diag=True: the same twin plus bookkeeping that detects CPython completing an `except*`
    try statement normally although one of its handler bodies was left by an exception
    (CPython 3.12.1 drops the exception in some nestings; such runs are outside the trusted base)."""
    _DIAG[0] = diag
    try:
        return _render_py(prog, bare)
    finally:
        _DIAG[0] = False


def _render_py(prog, bare):
    ctx, forms = prog["ctx"], prog["forms"]
    out = []
    if ctx == "module":
        _block(forms, "RESULT", out, "", {}, bare)
    elif ctx == "discard":
        _block(forms, None, out, "", {}, bare)
        out.append("RESULT = None")
    elif ctx == "fn":
        out.append("def f():")
        for r in RVARS:
            out.append(f"{IND}{r} = '{r}init'")
        _block(forms, "_ret", out, IND, {}, bare)
        out.append(f"{IND}return _ret")
        out.append("RESULT = f()")
    elif ctx == "afn":
        out.append("async def f():")
        for r in RVARS:
            out.append(f"{IND}{r} = '{r}init'")
        _block(forms, "_ret", out, IND, {}, bare)
        out.append(f"{IND}return _ret")
        out.append("RESULT = RUN(f())")
    elif ctx == "loop":
        out.append("RS = []")
        out.append("for i in [0, 1]:")
        _block(forms, "_v", out, IND, {}, bare)
        out.append(f"{IND}RS.append(_v)")
        out.append("RESULT = RS")
    else:
        raise AssertionError(ctx)
    return "\n".join(out) + "\n"


# ---------------------------------------------------------------------------
# static facts about a program

def regions(prog):
    """site -> region of the innermost enclosing clause."""
    reg = {}

    def walk(n, r):
        op = n["op"]
        if op == "L":
            reg[str(n["k"])] = r
            walk(n["e"], r)
        elif op in ("id", "set", "ret"):
            walk(n["e"], r)
        elif op in ("raise", "raiseg"):
            reg["raise" + str(n["k"])] = r
        elif op == "try":
            for x in n["b"]:
                walk(x, "body")
            for h in n["hs"]:
                if h["spec"].get("logk"):
                    reg[str(h["spec"]["logk"])] = "type"
                for x in h["b"]:
                    walk(x, "handler")
            for x in n["else"] or []:
                walk(x, "else")
            for x in n["fin"] or []:
                walk(x, "finally")
        elif op == "with":
            for m in n["ms"]:
                reg[f"{m['k']}:enter"] = reg[f"{m['k']}:aenter"] = "enter"
                reg[f"{m['k']}:exit"] = reg[f"{m['k']}:aexit"] = "exit"
                reg[f"{m['k']}:new"] = "mgr"
            for x in n["b"]:
                walk(x, "withbody")
    for f in prog["forms"]:
        walk(f, "top")
    return reg


def features(prog):
    fs = set()
    tries = []

    def walk(n, depth):
        op = n["op"]
        if op in ("L", "id", "set", "ret"):
            if op != "L":
                fs.add("op:" + op + ("x" if n.get("x") else ""))
            if n["e"]["op"] == "rd":
                fs.add("read-var")
            walk(n["e"], depth)
        elif op in ("raise", "reraise"):
            fs.add("op:" + op)
        elif op == "raiseg":
            fs.add("op:raise-group")
            if any(isinstance(m, list) for m in n["g"]):
                fs.add("op:raise-nested-group")
        elif op == "try":
            tries.append(n)
            if n.get("star") and n["hs"]:
                fs.add("try:except*")
                fs.add(f"except*:handlers={len(n['hs'])}")
            fs.add(f"depth:{depth + 1}")
            fs.add(f"try:handlers={len(n['hs'])}")
            if n["else"] is not None:
                fs.add("try:else" if n["hs"] else "try:else-without-handlers")
            if n["fin"] is not None:
                fs.add("try:finally")
            if not n["hs"] and n["fin"] is None:
                fs.add("try:plain-do")
            for h in n["hs"]:
                fs.add("spec:" + h["spec"]["form"] + ("+var" if h["var"] else ""))
                if h["spec"].get("logk"):
                    fs.add("spec:logged-type-expr")
                if not h["b"]:
                    fs.add("handler:empty")
            for part in [n["b"]] + [h["b"] for h in n["hs"]] + [n["else"] or [], n["fin"] or []]:
                for x in part:
                    walk(x, depth + 1)
        elif op == "with":
            fs.add(f"depth:{depth + 1}")
            fs.add(f"with:managers={len(n['ms'])}")
            kinds = {bool(m.get("async")) for m in n["ms"]}
            if len(kinds) == 2:
                fs.add("with:mixed-sync-async")
            if n.get("single"):
                fs.add("with:single-item")
            for m in n["ms"]:
                fs.add("mgr:" + m["mode"])
                if m.get("async"):
                    fs.add("mgr:async")
                    fs.add("mgr:async-" + m["mode"])
                    if m.get("sus"):
                        fs.add("mgr:async-suspending")
                if m["stmt"]:
                    fs.add("mgr:statement-producing")
                if m["new"]:
                    fs.add("mgr:logs-construction")
                fs.add("mgr:anonymous" if m["var"] is None else
                       ("mgr:var-shares-except-name" if m["var"] in ("e", "u") else "mgr:bound"))
            for x in n["b"]:
                walk(x, depth + 1)
    for f in prog["forms"]:
        walk(f, 0)
    return fs, tries


def has_all_handler(prog):
    fs, _ = features(prog)
    return "spec:all" in fs


# ---------------------------------------------------------------------------
# known mechanism: multi-item `with` compiled to ONE Python `with` statement

def walk_nodes(prog):
    stack = list(prog["forms"])
    while stack:
        n = stack.pop()
        yield n
        op = n["op"]
        if op in ("L", "id", "set", "ret"):
            stack.append(n["e"])
        elif op == "try":
            for part in [n["b"]] + [h["b"] for h in n["hs"]] + [n["else"] or [], n["fin"] or []]:
                stack.extend(part)
        elif op == "with":
            stack.extend(n["b"])


def flat_later_exit_sites(prog):
    """__exit__ sites of managers that are not the first of their `with` form and whose
    expression is a plain expression, so that Hy puts them into the same Python `with`
    statement as the preceding manager (value assignment inside that statement)."""
    return {f"{m['k']}:{'aexit' if m.get('async') else 'exit'}" for n in walk_nodes(prog) if n["op"] == "with"
            for m in n["ms"][1:] if not m["stmt"]}


def normalise_flat_multi_with(prog):
    """Same program, every non-first manager expression made statement-producing
    (`(do (setv tmK K) (CM tmK))`): no event is added or removed, Hy now nests one `with`
    per manager."""
    import copy
    p2 = copy.deepcopy(prog)
    for n in walk_nodes(p2):
        if n["op"] == "with":
            for m in n["ms"][1:]:
                m["stmt"] = True
    return p2


def _star_try_assigned(prog):
    return [n["e"] for n in walk_nodes(prog)
            if n["op"] == "set" and n["e"]["op"] == "try" and n["e"].get("star") and n["e"]["hs"]
            and n["e"]["fin"] is None]


def feature_assigned_star_try(prog):
    """(setv/setx x (try ... (except* ...))) without `finally`: Hy renames the try's result
    temporary to x, so handlers assign x although the remainder of the group is re-raised
    afterwards (or another except* clause still runs)."""
    return bool(_star_try_assigned(prog))


def normalise_assigned_star_try(prog):
    """Same program with an empty `(finally)` on those tries: no event added or removed; Hy
    then keeps the temporary (the rule introduced for try/finally)."""
    import copy
    p2 = copy.deepcopy(prog)
    for t in _star_try_assigned(p2):
        t["fin"] = []
    return p2


# ---------------------------------------------------------------------------
# running one rendered program under a plan

UNBOUND = "<unbound>"


def run_code(code, plan):
    """exec compiled module code in a fresh namespace under a fault plan.
    Returns dict(events, exc, result, finals)."""
    tr = Trace09(plan={int(k): v for k, v in plan})
    ns = env09(tr)
    ns["__name__"] = "hvc09"
    ns["_EXITED"], ns["_LOST"] = set(), []
    exc = None
    try:
        exec(code, ns)
    except BaseException as ex:
        if type(ex).__name__ == "CaseTimeout":
            raise
        exc = ex
    out = {"events": tr.events, "exc": None, "result": None, "lost": list(ns["_LOST"])}
    if exc is not None:
        out["exc"] = exc_tree(exc)
    else:
        r = ns.get("RESULT", UNBOUND)
        out["result"] = [token(x) for x in r] if isinstance(r, list) else token(r)
    fin = {}
    for nm in ["e", "u"] + RVARS:
        v = ns.get(nm, UNBOUND)
        fin[nm] = "SENT" if v is SENT else token(v)
    out["finals"] = fin
    return out


def compile_py(text):
    return compile(text, "<c09twin>", "exec")


def compile_hy_module(text):
    """Compile Hy text with the tree under test; returns (code, ast tree)."""
    import hy  # noqa: F401
    from hy.compiler import hy_compile
    from hy.reader import read_many
    from hv.common import fresh_module
    m = fresh_module("hvc09")
    tree = hy_compile(read_many(text, filename="<c09>"), m, filename="<c09>", source=text)
    return compile(tree, "<c09>", "exec"), tree


def enumerate_plans(py_code, rng, tier, max_pairs, fault_names=None):
    """All single-fault plans over the events of the fault-free twin run, then
    ordered pairs where the second fault lies in code reached after the first."""
    fault_names = fault_names or FAULT_NAMES
    base = run_code(py_code, [])
    n = len(base["events"])
    singles = [[[i, t]] for i in range(1, n + 1) for t in fault_names]
    pairs = []
    firsts = list(singles)
    if tier != "thorough":
        rng.shuffle(firsts)
    for p1 in firsts:
        if len(pairs) >= max_pairs:
            break
        r1 = run_code(py_code, p1)
        m = len(r1["events"])
        cand = [[p1[0], [j, t]] for j in range(p1[0][0] + 1, m + 1) for t in fault_names]
        if tier != "thorough":
            rng.shuffle(cand)
            cand = cand[:3]
        pairs.extend(cand)
    return n, singles, pairs[:max_pairs]


# ---------------------------------------------------------------------------
# Part 2 (C39): calling hy.eval from a scratch module

CALLER_SRC = (
    "def call(hy_eval, model, kw):\n"
    "    return hy_eval(model, **kw)\n"
)


def hy_entry(d):
    """Snapshot of the `hy` entry of a dictionary: () if absent else (object,)."""
    return (d["hy"],) if "hy" in d else ()


def same_entry(a, b):
    if len(a) != len(b):
        return False
    return not a or a[0] is b[0]


def show_entry(a):
    if not a:
        return "no `hy` entry"
    v = a[0]
    return f"`hy` -> {type(v).__name__} {repr(v)[:60]} (id {id(v):#x})"


# --- harness names live in `builtins`, so that even an empty globals dict works

class TraceProxy:
    """Stands in for a Trace in gen_prog.make_env; delegates to the current call's Trace."""

    def __init__(self):
        self.cur = None

    def L(self, k, v=None):
        return self.cur.L(k, v)


_C39 = {}


def c39_setup():
    if _C39:
        return _C39
    import builtins
    import hy
    from hv import gen_prog as G
    proxy = TraceProxy()
    env = G.make_env(proxy)
    for k, v in env.items():
        setattr(builtins, k, v)
    code = compile(CALLER_SRC, "<hvc39caller>", "exec")
    _C39.update(proxy=proxy, hy=hy, env=env, caller_code=code, n=itertools.count())
    return _C39


# --- programs

SPLIT_UNSAFE_OPS = {"fn", "defn", "setfn", "call", "lfor", "sfor", "dfor", "gfor"}


def prog_ops(n, acc=None):
    acc = set() if acc is None else acc
    if isinstance(n, dict):
        if "op" in n:
            acc.add(n["op"])
        for v in n.values():
            prog_ops(v, acc)
    elif isinstance(n, list):
        for v in n:
            prog_ops(v, acc)
    return acc


def rename_var(n, old, new):
    """Rename a module-level program variable everywhere (var reads, setv/setx targets, init)."""
    if isinstance(n, dict):
        out = {k: rename_var(v, old, new) for k, v in n.items()}
        if out.get("op") in ("var", "setx") and out.get("n") == old:
            out["n"] = new
        if out.get("op") == "setv":
            out["ps"] = [[new if a == old else a, v] for a, v in out["ps"]]
        if "init" in out and "last" in out:
            out["init"] = [[new if a == old else a, v] for a, v in out["init"]]
        return out
    if isinstance(n, list):
        return [rename_var(v, old, new) for v in n]
    return n


def c39_texts(prog):
    """(init form, [top-level forms], last form) as Hy text."""
    from hv import gen_prog as G
    init = "(setv " + " ".join(f"{v} {x}" for v, x in prog["init"]) + ")"
    return init, [G.R(f) for f in prog["forms"]], G.R(prog["last"])


CT_EVENT = 9001          # site of the compile-time event `(eval-when-compile (L 9001 0))`
MACRO_EVENT = 9002       # site logged by the raising macro before it raises
FOLLOW_SITE = 9100
READ_TAILS = ["(L 9200 1", ")", '"unterminated', "#{1 2", "[1 (2]"]


def c39_render(prog, form, fault):
    """The text handed to hy.read / hy.read_many for one call."""
    init, forms, last = c39_texts(prog)
    if form == "single":
        items = [last]
    else:
        items = [init] + forms + [last]
    if fault and fault["kind"] == "macro":
        pos = min(fault["pos"], len(items))
        items.insert(pos, "(boom 1 2)")
    if fault and fault.get("ct"):
        items.insert(0, f"(eval-when-compile (L {CT_EVENT} 0))")
    if form == "lazy":
        text = "\n".join(items)
        if fault and fault["kind"] == "read":
            text += "\n" + fault["tail"]
        return text
    if form == "single" and len(items) == 1:
        return items[0]
    return "(do " + " ".join(items) + ")"


class MacroBoom(Exception):
    pass


def boom(*args):
    """A macro that logs an event (at compile time) and raises."""
    import builtins
    builtins.L(MACRO_EVENT, None)
    raise MacroBoom("macro raised")


def build_dict(spec, hy):
    d = {}
    p = spec["prior"]
    if p == "module":
        d["hy"] = hy
    elif p == "sentinel":
        d["hy"] = Sentinel()
    elif p == "none":
        d["hy"] = None
    elif p == "int":
        d["hy"] = int("7777")
    return d


MODES = ["g", "l", "gl", "same", "module", "g+module", "l+module", "none"]
SPLIT_MODES = {"l", "gl", "l+module", "none"}


def run_history(pool_specs, progs, calls):
    """Run one history of hy.eval calls on a fresh pool of dictionaries.  Returns one record per
    call: dict(why=None|str, raised, events, prior, value_checked, tags)."""
    import sys
    import types
    from hv import gen_prog as G
    from hv.common import same_value
    st = c39_setup()
    hy = st["hy"]
    i = next(st["n"])
    caller = types.ModuleType(f"hvc39caller_{i}")
    caller.__file__ = "<hvc39caller>"
    exec(st["caller_code"], caller.__dict__)
    M = types.ModuleType(f"hvc39mod_{i}")
    M.__file__ = f"<hvc39mod_{i}>"
    sys.modules[caller.__name__] = caller
    sys.modules[M.__name__] = M
    pool = {name: build_dict(spec, hy) for name, spec in pool_specs.items()}
    recs = []
    try:
        for c in calls:
            recs.append(_one_call(st, hy, caller, M, pool, progs, c, G, same_value))
    finally:
        sys.modules.pop(caller.__name__, None)
        sys.modules.pop(M.__name__, None)
        st["proxy"].cur = None
    return recs


def _one_call(st, hy, caller, M, pool, progs, c, G, same_value):
    fault = c.get("fault")
    mode = c["mode"]
    prog = progs[c["p"]]["ir"] if c.get("p") is not None else None
    tags = ["mode:" + mode, "form:" + c["form"], "fault:" + (fault["kind"] if fault else "none")]
    kw = {}
    supplied = {}
    if c.get("g"):
        kw["globals"] = pool[c["g"]]
        supplied["globals"] = pool[c["g"]]
    if c.get("l"):
        kw["locals"] = pool[c["l"]]
        supplied["locals"] = pool[c["l"]]
    if "module" in mode:
        kw["module"] = M.__name__ if c.get("modstr") else M
    M._hy_macros = {}
    if fault and fault["kind"] == "macro":
        if fault["via"] == "arg":
            kw["macros"] = {"boom": boom}
        elif "module" in mode:
            M._hy_macros = {"boom": boom}
        else:
            caller._hy_macros = {"boom": boom}
    # where plain names of the evaluated code resolve / are stored
    if "locals" in kw:
        target = kw["locals"]
    elif "globals" in kw:
        target = kw["globals"]
    elif "module" in mode:
        target = M.__dict__
    else:
        target = caller.__dict__
    if c["form"] == "single" and prog is not None:
        for v, x in prog["init"]:
            target[v] = x
    text = c["text"]
    try:
        model = hy.read_many(text, filename="<c39>") if c["form"] == "lazy" else hy.read(text)
    except Exception as ex:
        return {"why": f"harness: cannot read the case text: {ex!r}", "raised": False, "events": 0,
                "prior": False, "tags": tags}
    before = {k: hy_entry(d) for k, d in supplied.items()}
    prior = any(before.values())
    for k, d in supplied.items():
        tags.append("dict:" + ("prior-" + type(d["hy"]).__name__ if "hy" in d else
                               ("empty" if not d else "no-hy")))
    if len(supplied) == 2 and kw["globals"] is kw["locals"]:
        tags.append("dict:same-object-as-both")
    plan = {}
    if fault and fault["kind"] in ("event", "ctevent"):
        plan = {fault["n"]: fault["t"]}
    tr = Trace(plan=plan)
    st["proxy"].cur = tr
    exc = None
    value = None
    try:
        value = caller.call(hy.eval, model, kw)
    except BaseException as ex:
        if type(ex).__name__ == "CaseTimeout":
            raise
        exc = ex
    finally:
        caller.__dict__.pop("_hy_macros", None)
    nev = len(tr.events)
    fired = any(isinstance(e[1], str) and e[1].startswith("!") for e in tr.events)
    rec = {"why": None, "raised": exc is not None, "events": nev, "prior": prior, "tags": tags,
           "value_checked": False}
    tags.append("outcome:" + ("returned" if exc is None else "raised-" + type(exc).__name__))
    # 1. the dictionaries the caller supplied
    for k, d in supplied.items():
        after = hy_entry(d)
        if not same_entry(before[k], after):
            rec["why"] = (f"the {k} dictionary had {show_entry(before[k])} before the call and has "
                          f"{show_entry(after)} after it (call {'raised ' + type(exc).__name__ if exc else 'returned'}"
                          f" after {nev} events)")
            return rec
    if "module" in mode and not supplied and "hy" in M.__dict__:
        tags.append("note:module-dict-gained-hy(not-a-supplied-dict)")
    # 2. the value
    if prog is None:
        exp = c.get("expect")
        if exc is not None:
            rec["why"] = f"follow-up call raised {exc!r} instead of returning {exp!r}"
        elif same_value(exp, value):
            rec["why"] = f"follow-up call returned {value!r}, expected {exp!r}"
        rec["value_checked"] = True
        return rec
    if fault is None or (fault["kind"] == "event" and not fired):
        try:
            ref = G.Interp().run(prog)
        except G.Budget:
            return rec
        rec["value_checked"] = True
        if ref["exc"] is None:
            if exc is not None:
                rec["why"] = (f"hy.eval raised {type(exc).__name__}: {str(exc)[:200]} but the reference completes "
                              f"with value {ref['value']!r}")
            else:
                d = same_value(ref["value"], value)
                if d:
                    rec["why"] = f"hy.eval returned {value!r}; the value of the last form is {ref['value']!r} ({d})"
        else:
            got = None if exc is None else [type(exc).__name__, list(getattr(exc, "args", ()))]
            if got != ref["exc"]:
                rec["why"] = f"hy.eval outcome {got if exc else repr(value)}; reference raises {ref['exc']}"
    elif exc is None:
        tags.append("note:fault-swallowed-by-program" if fired else "note:fault-not-reached")
        if fault["kind"] in ("macro", "read"):
            rec["why"] = f"hy.eval returned {value!r} although {fault['kind']} failure was injected"
    return rec
