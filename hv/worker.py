"""Worker: runs one shard of one property's cases in this process."""
import hashlib
import importlib
import json
import os
import signal
import sys
import time
import traceback


class CaseTimeout(BaseException):
    pass


_TIMED_OUT = [False]


def _alarm(signum, frame):
    # hy re-wraps exceptions raised during macro expansion / hy.eval (even BaseExceptions),
    # so the flag, not the exception type, tells run_one that the per-case alarm fired
    _TIMED_OUT[0] = True
    raise CaseTimeout()


def case_hash8(mod, case):
    keyf = getattr(mod, "case_key", None)
    obj = keyf(case) if keyf else case
    return hashlib.sha1(
        json.dumps(obj, sort_keys=True, default=repr).encode()).digest()[:8]


def check_tree():
    import hy
    repo = os.environ.get("VERIF_REPO", "/repo")
    if not os.path.abspath(hy.__file__).startswith(os.path.abspath(repo) + os.sep):
        raise SystemExit(f"hy imported from {hy.__file__}, not from {repo}")


def run_one(mod, case, timeout):
    _TIMED_OUT[0] = False
    signal.signal(signal.SIGALRM, _alarm)
    signal.setitimer(signal.ITIMER_REAL, timeout)
    try:
        res = mod.run_case(case)
    except CaseTimeout:
        return {"ok": None, "timeout": True}
    except BaseException:
        if _TIMED_OUT[0]:
            return {"ok": None, "timeout": True}
        raise
    finally:
        signal.setitimer(signal.ITIMER_REAL, 0)
    if _TIMED_OUT[0]:
        # the alarm fired somewhere inside the case (possibly swallowed and reported by hy as
        # an ordinary error): whatever the oracle concluded is not about hy
        return {"ok": None, "timeout": True}
    return res


def replay(pid, path, out):
    check_tree()
    mod = importlib.import_module("checks." + pid.lower())
    with open(path) as f:
        case = json.load(f)["case"]
    if hasattr(mod, "setup_worker"):
        mod.setup_worker("replay", 0)
    try:
        res = run_one(mod, case, getattr(mod, "REPLAY_TIMEOUT", max(120, 2 * getattr(mod, "CASE_TIMEOUT", 20))))
    except Exception:
        res = {"ok": None, "why": "harness error: " + traceback.format_exc()[-1500:]}
    with open(out, "w") as f:
        json.dump(res, f, default=repr)


def main():
    if sys.argv[1] == "--replay":
        return replay(*sys.argv[2:5])
    pid, tier, seed, shard, nshards, budget, out = sys.argv[1:8]
    seed, shard, nshards, budget = int(seed), int(shard), int(nshards), float(budget)
    check_tree()
    mod = importlib.import_module("checks." + pid.lower())
    timeout = getattr(mod, "CASE_TIMEOUT", 20)
    t0 = time.time()
    tot = dict(evaluations=0, skipped=0, timeouts=0, errors=0, events=0)
    classes = {}
    nsamples = 0
    want_samples = 1 if shard else 3
    seen = set()
    exhausted = False
    reach = None
    if getattr(mod, "ANCHORS", None):
        from hv import reach as reach_mod
        reach = reach_mod.Reach(mod.ANCHORS)
    if hasattr(mod, "setup_worker"):
        mod.setup_worker(tier, seed)
    with open(out, "w") as f, open(out + ".hashes", "wb") as hf:
        def emit(rec):
            f.write(json.dumps(rec, default=repr) + "\n")
            f.flush()
        gen = mod.cases(seed, tier, shard, nshards)
        per_key = {}
        while True:
            if time.time() - t0 > budget:
                break
            try:
                case = next(gen)
            except StopIteration:
                exhausted = True
                break
            try:
                # run exactly what a replay file would hold: a JSON round trip is not the
                # identity on strings (adjacent lone surrogates merge into one astral character)
                case = json.loads(json.dumps(case))
                res = run_one(mod, case, timeout)
            except Exception:
                tot["errors"] += 1
                if tot["errors"] <= 3:
                    sys.stderr.write("harness error on case %s\n%s\n" % (
                        json.dumps(case, default=repr)[:2000], traceback.format_exc()))
                    emit({"t": "harness_error", "case": case, "tb": traceback.format_exc()[-2500:]})
                continue
            if res.get("timeout"):
                tot["timeouts"] += 1
                tot["evaluations"] += 1
                continue
            tot["events"] += res.get("events", 0)
            for c in res.get("classes", ()):
                classes[c] = classes.get(c, 0) + 1
            if res.get("ok") is None:
                tot["skipped"] += 1
                continue
            tot["evaluations"] += res.get("n", 1)
            if res.get("nontrivial"):
                hs = res.get("nt_keys")
                if hs is None:
                    hs = [case_hash8(mod, case)]
                else:
                    hs = [hashlib.sha1(repr(k).encode()).digest()[:8] for k in hs]
                new = False
                for h in hs:
                    if h not in seen:
                        seen.add(h)
                        hf.write(h)
                        new = True
                if new and nsamples < want_samples:
                    nsamples += 1
                    emit({"t": "sample", "case": res.get("sample", case)})
            if res["ok"] is False:
                # cap per mechanism key, so a frequent (known) mechanism cannot crowd out
                # a different violation in the forwarded sample
                fk = res.get("finding")
                per_key[fk] = per_key.get(fk, 0) + 1
                if per_key[fk] <= (150 if fk is None else 25):
                    emit({"t": "violation", "case": case,
                          "result": {k: v for k, v in res.items() if k != "sample"}})
        extra = {}
        if hasattr(mod, "finish_worker"):
            extra = mod.finish_worker() or {}
        if reach is not None:
            extra["reach"] = reach.report()
        emit(dict(t="final", classes=classes, exhausted=exhausted, extra=extra,
                  wall=time.time() - t0, **tot))


if __name__ == "__main__":
    main()
