"""Resolved scope IR shared by C06 (let) and C07 (nonlocal/global).

A program is a tree of plain dict nodes (JSON-able).  `resolve(mod)` is an
independent scope analysis that gives every binder an identity and points every
reference / assignment / declaration at a binder, following the documented
rules (docs/api.rst `let`, `nonlocal`, `global`, `lfor`) plus Python's own
rules for everything that is not `let`:

  * a `let` binding is visible in the later bindings of the same `let`, in its
    body and in closures created there; an inner `let` / parameter shadows;
  * a plain assignment to a name that is let-bound at that point *in the same
    Python scope or through comprehension bodies* updates the let variable;
  * otherwise an assignment makes the name local to the nearest enclosing
    function / class / module (whole scope, Python rule), unless declared;
  * comprehension iteration / `:setv` variables are new variables of the
    comprehension; its first iterable belongs to the enclosing scope;
  * class-body variables are not visible from nested functions (Python rule);
  * `nonlocal n` -> nearest enclosing binding outside the declaring Python
    scope (let binder, function local, module variable); `global n` -> module.

Constructs whose meaning the docs leave open are *flagged* (`carve` list) so a
generator can discard the program instead of constraining hy on it.

Renderers: `to_hy(node)` (the program as written), `to_hy(node, twin=True)`
(alpha-renamed, let-free Hy twin), `to_py(body)` (CPython twin, statement
subset used by C07).
"""

# ---------------------------------------------------------------- constructors

def Int(v): return {"k": "int", "v": v}
def Ref(n): return {"k": "ref", "n": n}
def Log(i, e): return {"k": "L", "id": i, "e": e}
def Op(op, *a): return {"k": "op", "op": op, "a": list(a)}
def Call(f, *a): return {"k": "call", "f": f, "a": list(a)}
def Do(*body): return {"k": "do", "body": list(body)}
def If(t, a, b): return {"k": "if", "test": t, "then": a, "else": b}
def TN(n): return {"k": "tn", "n": n}
def TL(*items): return {"k": "tl", "items": list(items)}
def Set(t, v, op="setv"): return {"k": "set", "op": op, "t": t, "v": v}
def Let(binds, *body): return {"k": "let", "binds": [list(b) for b in binds], "body": list(body)}
def Fn(name, params, *body): return {"k": "fn", "name": name, "params": [list(p) for p in params], "body": list(body)}
def Cls(name, *body): return {"k": "cls", "name": name, "body": list(body)}
def Comp(form, clauses, elt): return {"k": "comp", "form": form, "clauses": clauses, "elt": elt}
def For(tg, e, *body): return {"k": "for", "tg": tg, "e": e, "body": list(body)}
def Decl(w, *names): return {"k": "decl", "w": w, "names": [{"n": n} for n in names]}
def Lst(*a): return {"k": "list", "a": list(a)}
def Range(e): return {"k": "range", "e": e}
def Raw(hy, py=None): return {"k": "raw", "hy": hy, "py": py if py is not None else hy}
def Mod(*body): return {"k": "mod", "body": list(body)}


def target_names(t):
    if t["k"] == "tn":
        yield t
    else:
        for x in t["items"]:
            yield from target_names(x)


# -------------------------------------------------------------------- resolver

class Frame:
    def __init__(self, kind, node, parent):
        self.kind = kind            # mod | fn | cls | let | comp
        self.node = node
        self.parent = parent
        self.active = {}            # let: name -> binder id (positional)
        self.own = None             # let: names ever bound by this let
        self.locals = set()         # py scopes
        self.params = set()
        self.decl = {}              # py scopes: name -> resolved target dict
        self.elided = set()
        self.bound = {}             # comp: name -> binder id
        self.sofar = set()
        self.id = None

    @property
    def is_py(self):
        return self.kind in ("mod", "fn", "cls")


def py_scope(fr):
    while not fr.is_py:
        fr = fr.parent
    return fr


class Resolver:
    """Two positional walks: phase 1 collects locals / declarations of every
    Python scope, phase 2 resolves."""

    def __init__(self):
        self.carve = []         # reasons the program is outside the specified fragment
        self.features = []      # notable (specified) features, e.g. first-iter-shadow
        self.binders = {}       # binder id -> info
        self.nlet = 0
        self.ncomp = 0
        self.nscope = 0
        self.stats = {"refs": 0, "let_refs": 0, "let_assigns": 0, "closure_let_refs": 0,
                      "decls": 0}

    # -- entry
    def run(self, mod):
        for phase in (1, 2):
            self.phase = phase
            self.nlet = self.ncomp = self.nscope = 0
            fr = Frame("mod", mod, None)
            fr.id = "M"
            if phase == 2:
                fr.locals = set(mod.get("_locals", ()))
            self.modframe = fr
            self.body(mod["body"], fr)
            if phase == 1:
                mod["_locals"] = sorted(fr.locals)
        return self

    def body(self, forms, fr):
        for f in forms:
            self.walk(f, fr)

    # -- lookups
    def lookup(self, n, fr, nested=False):
        """Lexical lookup of a *reference* to n from frame fr outward
        (nested=True: the reference sits in a Python scope nested in fr)."""
        crossed_fn = False      # passed a function frame (closure)
        crossed_py = nested     # passed any function/class frame
        cur = fr
        while cur is not None:
            k = cur.kind
            if k == "let":
                if n in cur.active:
                    return {"t": "let", "b": cur.active[n], "crossed": crossed_fn}
            elif k == "comp":
                if n in cur.bound:
                    if n not in cur.sofar:
                        self.carve.append("comp-ref-before-bind")
                    return {"t": "comp", "b": cur.bound[n]}
            elif k == "fn":
                if n in cur.elided:
                    self.carve.append("elided-nonlocal-used-outside-let")
                if n in cur.decl:
                    return dict(cur.decl[n], via_decl=True)
                if n in cur.locals or n in cur.params:
                    return {"t": "fn", "b": f"{cur.id}:{n}"}
                crossed_fn = crossed_py = True
            elif k == "cls":
                # class variables are invisible from nested functions / classes
                if not crossed_py:
                    if n in cur.elided:
                        self.carve.append("elided-nonlocal-used-outside-let")
                    if n in cur.decl:
                        return dict(cur.decl[n], via_decl=True)
                    if n in cur.locals:
                        return {"t": "cls", "b": f"{cur.id}:{n}"}
                crossed_py = True
            elif k == "mod":
                if n in cur.locals:
                    return {"t": "mod", "b": f"M:{n}"}
                return {"t": "free", "b": f"M:{n}"}
            cur = cur.parent
        return {"t": "free", "b": f"M:{n}"}

    def assign(self, tnode, fr, clause_target=False):
        n = tnode["n"]
        cur = fr
        while cur is not None:
            k = cur.kind
            if k == "let":
                if n in cur.active:
                    tnode["b"] = cur.active[n]
                    tnode["bt"] = "let"
                    if self.phase == 2:
                        self.stats["let_assigns"] += 1
                    return
            elif k == "comp":
                if clause_target and cur is fr:
                    tnode["b"] = cur.bound[n]
                    tnode["bt"] = "comp"
                    return
                if n in cur.bound:
                    self.carve.append("comp-assign-to-iteration-variable")
                # body assignments leak to the enclosing scope
            else:
                if n in cur.elided:
                    self.carve.append("elided-nonlocal-used-outside-let")
                if n in cur.decl:
                    tgt = cur.decl[n]
                    tnode["b"], tnode["bt"] = tgt["b"], tgt["t"]
                    return
                if self.phase == 1:
                    if n not in cur.node.get("_declnames", ()):
                        cur.locals.add(n)
                    tnode["b"] = f"{cur.id}:{n}"
                    return
                tnode["b"] = f"{cur.id}:{n}"
                tnode["bt"] = cur.kind
                if cur.kind in ("fn", "cls") and n not in cur.params and cur.parent is not None:
                    outer = self.lookup_quiet(n, cur.parent)
                    if outer["t"] == "let":
                        self.carve.append("nested-assign-shadows-let")
                return
            cur = cur.parent

    def lookup_quiet(self, n, fr):
        save = list(self.carve)
        r = self.lookup(n, fr, nested=True)
        self.carve[:] = save
        return r

    def new_let_binder(self, n, fr):
        self.nlet += 1
        bid = f"L{self.nlet}"
        self.binders[bid] = {"name": n, "kind": "let", "pyscope": py_scope(fr).kind}
        return bid

    # -- walk
    def walk(self, node, fr):
        k = node["k"]
        m = getattr(self, "w_" + k, None)
        if m is None:
            raise ValueError("unknown node kind " + k)
        return m(node, fr)

    def w_int(self, node, fr): pass
    def w_raw(self, node, fr): pass

    def w_ref(self, node, fr):
        if self.phase == 1:
            return
        r = self.lookup(node["n"], fr)
        node["b"], node["bt"] = r["b"], r["t"]
        self.stats["refs"] += 1
        if r["t"] == "let":
            self.stats["let_refs"] += 1
            if r.get("crossed"):
                self.stats["closure_let_refs"] += 1

    def w_L(self, node, fr): self.walk(node["e"], fr)
    def w_range(self, node, fr): self.walk(node["e"], fr)

    def w_op(self, node, fr):
        for a in node["a"]:
            self.walk(a, fr)
    w_list = w_op

    def w_call(self, node, fr):
        self.walk(node["f"], fr)
        for a in node["a"]:
            self.walk(a, fr)

    def w_do(self, node, fr): self.body(node["body"], fr)

    def w_if(self, node, fr):
        self.walk(node["test"], fr)
        self.walk(node["then"], fr)
        self.walk(node["else"], fr)

    def w_set(self, node, fr):
        self.walk(node["v"], fr)
        for t in target_names(node["t"]):
            self.assign(t, fr)

    def w_for(self, node, fr):
        self.walk(node["e"], fr)
        for t in target_names(node["tg"]):
            self.assign(t, fr)
        self.body(node["body"], fr)

    def w_let(self, node, fr):
        lf = Frame("let", node, fr)
        lf.own = set()
        for target, value in node["binds"]:
            self.walk(value, lf)
            for t in target_names(target):
                bid = self.new_let_binder(t["n"], lf)
                t["b"], t["bt"] = bid, "let"
                lf.active[t["n"]] = bid
                lf.own.add(t["n"])
        self.body(node["body"], lf)

    def define(self, name, fr, what):
        """defn / defclass name: defined in the Python scope, never let-renamed."""
        cur = fr
        while not cur.is_py:
            if cur.kind == "let" and name in cur.active:
                self.carve.append(what + "-shares-let-name")
            cur = cur.parent
        if name in cur.decl:
            return
        if self.phase == 1:
            cur.locals.add(name)

    def enter_py(self, kind, node, fr):
        self.nscope += 1
        nf = Frame(kind, node, fr)
        nf.id = ("F" if kind == "fn" else "K") + str(self.nscope)
        if kind == "fn":
            nf.params = {p[0] for p in node["params"]}
        if self.phase == 2:
            node["_id"] = nf.id
            nf.locals = set(node.get("_locals", ()))
            nf.elided = set(node.get("_elided", ()))
            for n, w in node.get("_declnames", {}).items():
                nf.decl[n] = self.resolve_decl(n, w, nf)
        return nf

    def leave_py(self, nf):
        if self.phase == 1:
            nf.node["_locals"] = sorted(nf.locals)
            nf.node.setdefault("_declnames", {})
            nf.node.setdefault("_elided", [])

    def w_fn(self, node, fr):
        for p in node["params"]:
            if p[1] is not None:
                self.walk(p[1], fr)
        if node["name"]:
            self.define(node["name"], fr, "defn")
        if self.phase == 1:
            node["_declnames"] = {}
            node["_elided"] = []
        nf = self.enter_py("fn", node, fr)
        self.body(node["body"], nf)
        self.leave_py(nf)

    def w_cls(self, node, fr):
        self.define(node["name"], fr, "defclass")
        if self.phase == 1:
            node["_declnames"] = {}
            node["_elided"] = []
        nf = self.enter_py("cls", node, fr)
        self.body(node["body"], nf)
        self.leave_py(nf)

    def w_comp(self, node, fr):
        clauses = node["clauses"]
        self.ncomp += 1
        cf = Frame("comp", node, fr)
        for c in clauses:
            if c["t"] in ("for", "setv"):
                for t in target_names(c["tg"]):
                    cf.bound.setdefault(t["n"], f"C{self.ncomp}:{t['n']}")
        first_src = clauses and clauses[0]["t"] in ("for", "setv")
        for i, c in enumerate(clauses):
            if i == 0 and first_src:
                # the first source expression belongs to the enclosing scope
                if self.phase == 2:
                    names = set()
                    collect_ref_names(c["e"], names)
                    hit = sorted(names & set(cf.bound))
                    if hit:
                        self.features.append(["first-iter-shadow", hit])
                        node["_first_iter_shadow"] = hit
                self.walk(c["e"], fr)
            else:
                self.walk(c["e"], cf)
            if c["t"] in ("for", "setv"):
                for t in target_names(c["tg"]):
                    self.assign(t, cf, clause_target=True)
                    cf.sofar.add(t["n"])
        self.walk(node["elt"], cf)
        if node.get("key") is not None:
            self.walk(node["key"], cf)

    # -- declarations
    def resolve_decl(self, n, w, nf):
        """Target of a declaration of n made in Python scope nf (phase 2)."""
        if w == "global":
            return {"t": "mod", "b": f"M:{n}", "decl": "global",
                    "defined": n in self.modframe.locals}
        cur = nf.parent
        while cur is not None:
            k = cur.kind
            if k == "let" and n in cur.active:
                return {"t": "let", "b": cur.active[n], "decl": "nonlocal"}
            if k == "comp":
                self.carve.append("declaration-inside-comprehension")
            if k == "fn":
                if n in cur.decl:
                    if cur.decl[n].get("decl") == "global":
                        self.carve.append("nonlocal-through-global-declaration")
                    return dict(cur.decl[n], decl="nonlocal")
                if n in cur.locals or n in cur.params:
                    return {"t": "fn", "b": f"{cur.id}:{n}", "decl": "nonlocal"}
            if k == "mod":
                if n in cur.locals:
                    return {"t": "mod", "b": f"M:{n}", "decl": "nonlocal", "defined": True}
                return {"t": "unbound", "b": f"?:{n}", "decl": "nonlocal"}
            cur = cur.parent
        return {"t": "unbound", "b": f"?:{n}", "decl": "nonlocal"}

    def w_decl(self, node, fr):
        w = node["w"]
        pf = py_scope(fr)
        if pf.kind == "mod":
            self.carve.append("module-level-declaration")
            return
        for ent in node["names"]:
            n = ent["n"]
            # let frames of the same Python scope between the declaration and pf
            cur, innermost, hit = fr, True, None
            while cur is not pf:
                if cur.kind == "let":
                    if n in cur.active:
                        hit = (cur, innermost)
                        break
                    innermost = False
                elif cur.kind == "comp":
                    self.carve.append("declaration-inside-comprehension")
                cur = cur.parent
            if hit is not None:
                if w == "global":
                    self.carve.append("global-of-name-let-bound-in-same-scope")
                elif hit[1]:
                    self.carve.append("nonlocal-of-own-let-binding")
                else:
                    ent["elided"] = True
                    ent["b"], ent["bt"] = hit[0].active[n], "let"
                    if self.phase == 1:
                        if n not in pf.node["_elided"]:
                            pf.node["_elided"].append(n)
                    continue
            if self.phase == 1:
                prev = pf.node["_declnames"].get(n)
                if prev is not None and prev != w:
                    self.carve.append("conflicting-declarations")
                if n in pf.params:
                    self.carve.append("declared-parameter")
                pf.node["_declnames"][n] = w
                pf.locals.discard(n)
            else:
                tgt = pf.decl[n]
                ent["b"], ent["bt"] = tgt["b"], tgt["t"]
                self.stats["decls"] += 1
                if tgt["t"] == "mod" and w == "nonlocal" and not tgt.get("defined"):
                    self.carve.append("nonlocal-of-runtime-only-global")


def collect_ref_names(node, out):
    if isinstance(node, dict):
        if node.get("k") == "ref":
            out.add(node["n"])
        for v in node.values():
            collect_ref_names(v, out)
    elif isinstance(node, list):
        for v in node:
            collect_ref_names(v, out)


def resolve(mod):
    return Resolver().run(mod)


def strip(node):
    """Remove resolver annotations (so a tree can be re-resolved after edits)."""
    if isinstance(node, dict):
        for key in [k for k in node if k.startswith("_") or k in ("b", "bt", "elided")]:
            del node[key]
        for v in node.values():
            strip(v)
    elif isinstance(node, list):
        for v in node:
            strip(v)
    return node


# ------------------------------------------------------------------- renderers

def _nm(node, twin):
    if twin and node.get("bt") == "let":
        return f"{node['n']}_{node['b']}"
    return node["n"]


def hy_target(t, twin):
    if t["k"] == "tn":
        return _nm(t, twin)
    return "[" + " ".join(hy_target(x, twin) for x in t["items"]) + "]"


def to_hy(node, twin=False):
    k = node["k"]
    H = lambda x: to_hy(x, twin)
    B = lambda forms: "".join(" " + to_hy(f, twin) for f in forms)
    if k == "int":
        return str(node["v"])
    if k == "ref":
        return _nm(node, twin)
    if k == "raw":
        return node["hy"]
    if k == "L":
        return f"(L {node['id']} {H(node['e'])})"
    if k == "op":
        return "(" + node["op"] + B(node["a"]) + ")"
    if k == "list":
        return "[" + " ".join(H(a) for a in node["a"]) + "]"
    if k == "range":
        return f"(range {H(node['e'])})"
    if k == "call":
        return "(" + H(node["f"]) + B(node["a"]) + ")"
    if k == "do":
        return "(do" + B(node["body"]) + ")"
    if k == "if":
        return f"(if {H(node['test'])} {H(node['then'])} {H(node['else'])})"
    if k == "set":
        return f"({node['op']} {hy_target(node['t'], twin)} {H(node['v'])})"
    if k == "for":
        return f"(for [{hy_target(node['tg'], twin)} {H(node['e'])}]" + B(node["body"]) + ")"
    if k == "let":
        if twin:
            return ("(do" + "".join(f" (setv {hy_target(t, True)} {H(v)})" for t, v in node["binds"])
                    + B(node["body"]) + ")")
        return ("(let [" + " ".join(f"{hy_target(t, False)} {H(v)}" for t, v in node["binds"]) + "]"
                + B(node["body"]) + ")")
    if k == "fn":
        ps = " ".join(p[0] if p[1] is None else f"[{p[0]} {H(p[1])}]" for p in node["params"])
        if node["name"]:
            return f"(defn {node['name']} [{ps}]" + B(node["body"]) + ")"
        return f"(fn [{ps}]" + B(node["body"]) + ")"
    if k == "cls":
        return f"(defclass {node['name']} []" + B(node["body"]) + ")"
    if k == "comp":
        parts = []
        for c in node["clauses"]:
            if c["t"] == "for":
                parts.append(f"{hy_target(c['tg'], twin)} {H(c['e'])}")
            elif c["t"] == "setv":
                parts.append(f":setv {hy_target(c['tg'], twin)} {H(c['e'])}")
            else:
                parts.append(f":{c['t']} {H(c['e'])}")
        if node.get("key") is not None:
            parts.append(H(node["key"]))
        parts.append(H(node["elt"]))
        return "(" + node["form"] + " " + " ".join(parts) + ")"
    if k == "decl":
        return "(" + node["w"] + "".join(" " + e["n"] for e in node["names"]) + ")"
    if k == "mod":
        return "\n".join(H(f) for f in node["body"])
    raise ValueError(k)


def py_target(t):
    if t["k"] == "tn":
        return _nm(t, True)
    return "[" + ", ".join(py_target(x) for x in t["items"]) + "]"


def py_expr(node):
    k = node["k"]
    if k == "int":
        return str(node["v"])
    if k == "ref":
        return _nm(node, True)
    if k == "raw":
        return node["py"]
    if k == "L":
        return f"L({node['id']}, {py_expr(node['e'])})"
    if k == "op":
        return "(" + f" {node['op']} ".join(py_expr(a) for a in node["a"]) + ")"
    if k == "list":
        return "[" + ", ".join(py_expr(a) for a in node["a"]) + "]"
    if k == "range":
        return f"range({py_expr(node['e'])})"
    if k == "call":
        return py_expr(node["f"]) + "(" + ", ".join(py_expr(a) for a in node["a"]) + ")"
    raise ValueError("no python expression rendering for " + k)


def to_py(forms, binders, ind=0, out=None):
    """Statement rendering of a body (CPython twin).  `binders` is
    Resolver.binders (to decide nonlocal vs global for let binders)."""
    out = [] if out is None else out
    pad = "    " * ind
    n0 = len(out)
    for node in forms:
        k = node["k"]
        if k == "set":
            if node["op"] == "setv":
                out.append(f"{pad}{py_target(node['t'])} = {py_expr(node['v'])}")
            elif node["op"] == "+=":
                out.append(f"{pad}{py_target(node['t'])} += {py_expr(node['v'])}")
            else:
                out.append(f"{pad}({py_target(node['t'])} := {py_expr(node['v'])})")
        elif k == "let":
            for t, v in node["binds"]:
                out.append(f"{pad}{py_target(t)} = {py_expr(v)}")
            to_py(node["body"], binders, ind, out)
        elif k == "do":
            to_py(node["body"], binders, ind, out)
        elif k == "fn":
            if not node["name"]:
                raise ValueError("anonymous fn in python twin")
            ps = ", ".join(p[0] if p[1] is None else f"{p[0]}={py_expr(p[1])}" for p in node["params"])
            out.append(f"{pad}def {node['name']}({ps}):")
            m = len(out)
            to_py(node["body"], binders, ind + 1, out)
            if len(out) == m:
                out.append(f"{pad}    pass")
        elif k == "cls":
            out.append(f"{pad}class {node['name']}:")
            m = len(out)
            to_py(node["body"], binders, ind + 1, out)
            if len(out) == m:
                out.append(f"{pad}    pass")
        elif k == "for":
            out.append(f"{pad}for {py_target(node['tg'])} in {py_expr(node['e'])}:")
            m = len(out)
            to_py(node["body"], binders, ind + 1, out)
            if len(out) == m:
                out.append(f"{pad}    pass")
        elif k == "decl":
            for ent in node["names"]:
                if ent.get("elided"):
                    continue
                bt = ent.get("bt")
                if node["w"] == "global":
                    out.append(f"{pad}global {ent['n']}")
                elif bt == "let":
                    kw = "global" if binders[ent["b"]]["pyscope"] == "mod" else "nonlocal"
                    out.append(f"{pad}{kw} {ent['n']}_{ent['b']}")
                elif bt == "mod":
                    out.append(f"{pad}global {ent['n']}")
                else:           # function local, or unbound (CPython must reject)
                    out.append(f"{pad}nonlocal {ent['n']}")
        else:
            out.append(f"{pad}{py_expr(node)}")
    return out
