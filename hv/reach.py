"""Reach evidence: one-shot sys.monitoring LINE probes on anchored functions."""
import importlib
import sys

TOOL = 4


def _resolve(spec):
    modname, qual = spec.split(":")
    obj = importlib.import_module(modname)
    for part in qual.split("."):
        obj = getattr(obj, part)
    obj = getattr(obj, "__wrapped__", obj)
    obj = getattr(obj, "__func__", obj)
    return obj.__code__


def _lines(code):
    out = set()
    for _, _, ln in code.co_lines():
        if ln is not None and ln != code.co_firstlineno:
            out.add(ln)
    return out


class Reach:
    def __init__(self, specs):
        self.codes = {}
        self.missing = []
        self.hits = {}
        mon = sys.monitoring
        try:
            mon.use_tool_id(TOOL, "hv-reach")
        except ValueError:
            pass
        for spec in specs:
            try:
                code = _resolve(spec)
            except Exception:
                self.missing.append(spec)
                continue
            self.codes[code] = spec
            self.hits[spec] = set()
            mon.set_local_events(TOOL, code, mon.events.LINE)
        mon.register_callback(TOOL, mon.events.LINE, self._line)

    def _line(self, code, line):
        spec = self.codes.get(code)
        if spec is not None:
            self.hits[spec].add(line)
        return sys.monitoring.DISABLE

    def report(self):
        out = {}
        for code, spec in self.codes.items():
            out[spec] = {"lines_hit": sorted(self.hits[spec]),
                         "lines_total": len(_lines(code))}
        for spec in self.missing:
            out[spec] = {"missing": True}
        return out
