"""Shared helpers for the CPython-twin checks C03 / C05 / C08: harness value
classes, outcome capture (value or exception type) and typed comparison."""
from hv.common import same_value


class Sym:
    """Symbolic operand: every arithmetic/bitwise dunder returns a new Sym whose
    text records the association, so the fold direction and the operand order
    of an n-ary operator form are directly visible in the result."""

    def __init__(self, s):
        self.s = s

    def __repr__(self):
        return f"Sym({self.s!r})"

    def __eq__(self, o):
        return isinstance(o, Sym) and o.s == self.s

    __hash__ = None


def _symtext(x):
    return x.s if isinstance(x, Sym) else repr(x)


def _mk(name, opstr):
    def fwd(self, o):
        if isinstance(o, (Sym, int)) and not isinstance(o, bool):
            return Sym(f"({self.s}{opstr}{_symtext(o)})")
        return NotImplemented

    def rev(self, o):
        if isinstance(o, int) and not isinstance(o, bool):
            return Sym(f"({_symtext(o)}{opstr}{self.s})")
        return NotImplemented

    def inp(self, o):
        if isinstance(o, (Sym, int)) and not isinstance(o, bool):
            return Sym(f"[{self.s}{opstr}={_symtext(o)}]")
        return NotImplemented

    setattr(Sym, f"__{name}__", fwd)
    setattr(Sym, f"__r{name}__", rev)
    setattr(Sym, f"__i{name}__", inp)


for _n, _o in [("add", "+"), ("sub", "-"), ("mul", "*"), ("truediv", "/"),
               ("floordiv", "//"), ("mod", "%"), ("pow", "**"), ("matmul", "@"),
               ("lshift", "<<"), ("rshift", ">>"), ("and", "&"), ("or", "|"),
               ("xor", "^")]:
    _mk(_n, _o)
Sym.__neg__ = lambda self: Sym(f"(-{self.s})")
Sym.__pos__ = lambda self: Sym(f"(+{self.s})")
Sym.__invert__ = lambda self: Sym(f"(~{self.s})")


class Mat:
    """Operand for `@`: only matmul is defined (with Mat), everything else is a
    TypeError."""

    def __init__(self, s):
        self.s = s

    def __repr__(self):
        return f"Mat({self.s!r})"

    def __eq__(self, o):
        return isinstance(o, Mat) and o.s == self.s

    __hash__ = None

    def __matmul__(self, o):
        if isinstance(o, Mat):
            return Mat(f"({self.s}@{o.s})")
        return NotImplemented

    def __imatmul__(self, o):
        if isinstance(o, Mat):
            return Mat(f"[{self.s}@={o.s}]")
        return NotImplemented


class Box:
    """Attribute target for augmented assignment."""

    def __init__(self, v):
        self.v = v


def outcome(fn, *args, **kwargs):
    """Run fn; return ["val", value] or ["exc", type name, message]. CaseTimeout is a
    BaseException and passes through."""
    try:
        return ["val", fn(*args, **kwargs)]
    except Exception as e:
        return ["exc", type(e).__name__, str(e)[:200]]


def diff_outcome(a, b, what_a="hy", what_b="ref"):
    """None if the two outcomes agree (same value with the same types at every
    node, NaN-aware; or the same exception type), else an explanation."""
    if a[0] != b[0]:
        return f"{what_a}: {show(a)} but {what_b}: {show(b)}"
    if a[0] == "exc":
        if a[1] != b[1]:
            return f"{what_a} raised {a[1]} but {what_b} raised {b[1]}"
        return None
    d = deep_diff(a[1], b[1])
    if d:
        return f"{what_a} vs {what_b}{d}"
    return None


def deep_diff(a, b, path=""):
    if isinstance(a, dict) and type(a) is type(b):
        if list(a.keys()) != list(b.keys()):
            if set(map(repr, a.keys())) != set(map(repr, b.keys())):
                return f"{path}: keys {list(a)!r} != {list(b)!r}"
        for k in a:
            if k not in b:
                return f"{path}: key {k!r} missing"
            d = deep_diff(a[k], b[k], f"{path}[{k!r}]")
            if d:
                return d
        return None
    if isinstance(a, (list, tuple)) and type(a) is type(b):
        if len(a) != len(b):
            return f"{path}: len {len(a)} != {len(b)} ({a!r} != {b!r})"
        for i, (x, y) in enumerate(zip(a, b)):
            d = deep_diff(x, y, f"{path}[{i}]")
            if d:
                return d
        return None
    if type(a) is int and type(b) is int:
        return None if a == b else f"{path}: {srepr(a)} != {srepr(b)}"
    return same_value(a, b, path)


def srepr(v):
    try:
        r = repr(v)
    except ValueError:          # int too large for str conversion
        return f"<int of {v.bit_length()} bits>"
    return r if len(r) <= 160 else r[:157] + "..."


def show(o):
    if o[0] == "exc":
        return f"raised {o[1]}({o[2][:80]!r})"
    return f"value {srepr(o[1])} ({type(o[1]).__name__})"
