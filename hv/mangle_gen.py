"""Name workloads shared by the mangling properties (C32, C33, C34).

* the exhaustive code-point sub-space: every code point 0..0x10FFFF (incl.
  surrogates) in seven positional contexts, cut into blocks that are sharded
  over the workers;
* random hostile names built from segments that stress each step of the
  mangling algorithm (leading underscores / underscore-like characters,
  hyphens, the delimiter X, existing hyx_/XfooX escapes, characters that
  NFKC changes, combining marks, unnamed code points, digits first, Python
  keywords, dots);
* for C34: hostile names that read back as a single Hy symbol.

Nothing in here calls hy.mangle: the generators and the Unicode facts
(`underscore_like`, `nfkc`) are independent of the code under test.
"""
import keyword
import unicodedata

NCP = 0x110000
BLOCK = 256                       # code points per exhaustive case
NBLOCKS = NCP // BLOCK            # 4352

# (tag, prefix, suffix): c, a.c, c.a, a.c.b, _.c, -.c, c.-
CONTEXTS = (("c", "", ""), ("ac", "a", ""), ("ca", "", "a"), ("acb", "a", "b"),
            ("_c", "_", ""), ("-c", "-", ""), ("c-", "", "-"))
NAMES_PER_BLOCK = BLOCK * len(CONTEXTS)


def nfkc(s):
    return unicodedata.normalize("NFKC", s)


_UL = None


def underscore_like():
    """All characters that NFKC-normalise to "_" (docs/syntax.rst, mangling
    step 1), computed from unicodedata - not copied from hy."""
    global _UL
    if _UL is None:
        _UL = "".join(chr(i) for i in range(NCP) if nfkc(chr(i)) == "_")
    return _UL


def leading_underscores(s):
    """Number of leading underscore-like characters of `s`."""
    return len(s) - len(s.lstrip(underscore_like()))


def after_leading_underscores(s):
    return s.lstrip(underscore_like())


def block_indices(shard, nshards):
    for b in range(NBLOCKS):
        if b % nshards == shard:
            yield b


def block_names(lo, n=BLOCK):
    """Yield (context index, code point, name) for the block [lo, lo+n)."""
    for cp in range(lo, min(lo + n, NCP)):
        c = chr(cp)
        for ci, (_, pre, post) in enumerate(CONTEXTS):
            yield ci, cp, pre + c + post


# --- random hostile names --------------------------------------------------

LETTERS = "abcxyzhuqIAHUX"
DIGITS = "0123456789"
PUNCT = "?!*+<>=/&%$@^|\\,:#"
NOT_IN_SYMBOLS = "()[]{};\"'`~ \t\n"
KEYWORDS = ["if", "class", "from", "None", "True", "False", "def", "lambda",
            "import", "match", "case", "print", "async", "not", "is", "in"]
ESCAPES = ["Xquestion_markX", "XU1fX", "XhyphenHminusX", "XpizzazzX", "XsquidX",
           "XU110000X", "XUffffffffffX", "X_X", "XX", "XUX", "XHX", "Xlatin_capital_letter_xX",
           "hyx_", "hyx-", "hyx_X", "XUd800X", "Xfull_stopX", "XlowHlineX", "Xlow_lineX"]
UNDERSCORES = ["_", "__", "\ufe33", "\ufe34", "\ufe4d", "\ufe4e", "\ufe4f", "\uff3f"]
HYPHENS = ["-", "--", "-_", "_-", "\u2010", "\u2013", "\uff0d", "\u2212", "\ufe63"]
# identifier characters that NFKC changes (several create an ASCII X, h, y, x, _ or digits)
NFKC_CHANGING = ["\u2168", "\uff38", "\U0001d417", "\U0001d54f", "\u216a", "\u2179",
                 "\uff58", "\u02e3", "\u2093", "\ufb01", "\xaa", "\xb2", "\u210c",
                 "\u338f", "\uff48", "\u02b0", "\u210e", "\uff59", "\U0001d532", "\uff28",
                 "\uff35", "\u017f", "\u212a", "\u212b", "\xb5", "\u01c5", "\uff10",
                 "\uff11", "\u2460", "\xbd", "\u2026", "\u2024", "\uff0e", "\u037a",
                 "\u0132", "\u1e9b", "\ufdfa", "\u3392"]
COMBINING = ["\u0301", "\u0307", "\u0308", "\u0323", "\u0338", "\u3099", "\u093c",
             "\u20dd", "\u1161", "\u11a8", "\u0345", "\ufe0f", "\u200d", "\u200c"]
UNNAMED = ["\x00", "\x01", "\x1f", "\x7f", "\x85", "\ue000", "\u0378", "\ud800", "\udbff",
           "\udfff", "\uffff", "\ufdd0", "\U0010ffff", "\U000e0001", "\U000f0000",
           "\U0003ffff"]
NAMED_ODD = ["\U0001f991", "\u2618", "\u2666", "\u2660", "\u2192", "\u03bb", "\u03b1",
             "\xe9", "\xdf", "\u0130", "\u0131", "\u1100", "\u4e2d", "\uac00",
             "\U00020000", "\U00017000", "\u0661", "\u07c0", "\xa0", "\u3000", "\xb7",
             "\u0387", "\u1369", "\u19da", "\u2118", "\u212e", "\u309b", "\xad", "\u2028",
             "\ufeff", "\xd7", "\U0001f1fa"]

_SEGMENT_KINDS = (
    ("letters", 18), ("digit", 6), ("hyphen", 12), ("underscore", 10), ("X", 8),
    ("escape", 8), ("punct", 10), ("nfkc", 10), ("combining", 6), ("unnamed", 4),
    ("odd", 6), ("keyword", 3), ("anycp", 8), ("bmpcp", 4),
)
_KINDS = [k for k, w in _SEGMENT_KINDS for _ in range(w)]


def _segment(rng):
    k = rng.choice(_KINDS)
    if k == "letters":
        return "".join(rng.choice(LETTERS) for _ in range(rng.randint(1, 3)))
    if k == "digit":
        return rng.choice(DIGITS)
    if k == "hyphen":
        return rng.choice(HYPHENS)
    if k == "underscore":
        return rng.choice(UNDERSCORES)
    if k == "X":
        return rng.choice(("X", "XX", "Xa", "aX", "H", "U"))
    if k == "escape":
        return rng.choice(ESCAPES)
    if k == "punct":
        return rng.choice(PUNCT)
    if k == "nfkc":
        return rng.choice(NFKC_CHANGING)
    if k == "combining":
        return rng.choice(COMBINING)
    if k == "unnamed":
        return rng.choice(UNNAMED)
    if k == "odd":
        return rng.choice(NAMED_ODD)
    if k == "keyword":
        return rng.choice(KEYWORDS)
    if k == "anycp":
        return chr(rng.randrange(NCP))
    return chr(rng.randrange(0x10000))


_LEADS = ("", "", "", "", "_", "__", "-", "--", "_-", "-_", "\uff3f", "\ufe33_", "___", "_\ufe4f-")


def rand_plain_name(rng):
    """A hostile name without dots (or, rarely, consisting only of dots)."""
    if rng.random() < 0.01:
        return "." * rng.randint(1, 4)
    n = rng.choice((1, 1, 2, 2, 3, 3, 4, 5, 6, 8))
    s = rng.choice(_LEADS) + "".join(_segment(rng) for _ in range(n))
    s = s.replace(".", "\xb7")
    if rng.random() < 0.15:
        s += rng.choice(("_", "__", "-", "--", "_-"))
    return s or "a"


def rand_dotted_name(rng):
    """A name with the syntax of a dotted identifier: optional leading dots,
    then non-empty dot-free parts separated by single dots."""
    parts = [rand_plain_name(rng) for _ in range(rng.choice((2, 2, 3, 4)))]
    return "." * rng.choice((0, 0, 0, 1, 2)) + ".".join(parts)


def rand_name(rng, dotted_share=0.0):
    if dotted_share and rng.random() < dotted_share:
        return rand_dotted_name(rng)
    return rand_plain_name(rng)


def name_classes(s):
    """Input-class tags of a name (for the evidence histogram)."""
    out = []
    ul = underscore_like()
    if s[0] in ul:
        out.append("lead-underscore" if s[0] == "_" else "lead-underscore-like")
    body = s.lstrip(ul)
    if body.startswith("-"):
        out.append("lead-hyphen")
    if "-" in body[1:]:
        out.append("inner-hyphen")
    if "X" in s:
        out.append("has-X")
    if body.startswith("hyx_"):
        out.append("hyx-prefix")
    elif "hyx_" in s:
        out.append("inner-hyx")
    if "." in s and s.strip("."):
        out.append("dotted")
    if body[:1].isdigit():
        out.append("digit-first")
    if keyword.iskeyword(s):
        out.append("py-keyword")
    if not s.isascii():
        out.append("non-ascii")
        if nfkc(s) != s:
            out.append("nfkc-changes")
        if any(unicodedata.combining(c) for c in s):
            out.append("combining")
        if any(ord(c) > 0xFFFF for c in s):
            out.append("astral")
        if any(0xD800 <= ord(c) <= 0xDFFF for c in s):
            out.append("surrogate")
    if any(not unicodedata.name(c, "") for c in s):
        out.append("unnamed-char")
    if s.isidentifier():
        out.append("py-identifier")
    return out


# --- C34: hostile names that read as one Hy symbol ---------------------------

SYMBOL_PUNCT = "?!*+<>=/&%$@^|\\,"
_SYM_KINDS = (["letters"] * 16 + ["digit"] * 4 + ["hyphen"] * 12 + ["underscore"] * 8 +
              ["X"] * 5 + ["escape"] * 4 + ["punct"] * 14 + ["nfkc"] * 10 + ["combining"] * 3 +
              ["odd"] * 8 + ["keyword"] * 3 + ["bmpcp"] * 5 + ["anycp"] * 3)
_SYM_LEADS = ("", "", "", "", "", "_", "__", "-", "--", "_-", "-_", "\uff3f", "\ufe33_")


CLASSIC = ["foo-bar", "foo_bar", "valid?", "*earmuffs*", "--has-dashes?", "-_has_dashes", "green\u2618",
           "__green\u2618", "\u2666-->\u2660", "a->b", "->", "<=", "+=", "foo!", "is-not", "not?", "-", "--",
           "_-", "-1+", "1+", "nil?", "f/g", "x*", "&rest", "%1", "@x", "^a", "\u03b1", "hyx_foo", "hyx_XfooX"]


def rand_symbol_text(rng):
    """Candidate text for a Hy symbol (the caller still has to confirm with
    the reader that it reads as a single Symbol)."""
    r = rng.random()
    if r < 0.04:
        return rng.choice(KEYWORDS)
    if r < 0.10:
        return rng.choice(CLASSIC)
    n = rng.choice((1, 1, 2, 2, 3, 3, 4, 5))
    segs = []
    for _ in range(n):
        k = rng.choice(_SYM_KINDS)
        if k == "letters":
            segs.append("".join(rng.choice(LETTERS) for _ in range(rng.randint(1, 3))))
        elif k == "digit":
            segs.append(rng.choice(DIGITS))
        elif k == "hyphen":
            segs.append(rng.choice(("-", "--", "-_", "_-")))
        elif k == "underscore":
            segs.append(rng.choice(UNDERSCORES))
        elif k == "X":
            segs.append(rng.choice(("X", "Xa", "aX", "H", "U")))
        elif k == "escape":
            segs.append(rng.choice(("Xquestion_markX", "XU1fX", "XhyphenHminusX", "hyx_", "XsquidX")))
        elif k == "punct":
            segs.append(rng.choice(SYMBOL_PUNCT))
        elif k == "nfkc":
            segs.append(rng.choice(NFKC_CHANGING))
        elif k == "combining":
            segs.append(rng.choice(COMBINING))
        elif k == "odd":
            segs.append(rng.choice(NAMED_ODD))
        elif k == "keyword":
            segs.append(rng.choice(KEYWORDS))
        elif k == "anycp":
            segs.append(chr(rng.randrange(NCP)))
        else:
            segs.append(chr(rng.randrange(0x10000)))
    s = rng.choice(_SYM_LEADS) + "".join(segs)
    return s
