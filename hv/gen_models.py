"""Generator of hy model trees for the printer / quoting properties (C25, C30,
C31; C24 has its own f-string IR because it also needs a Python rendering).

Three sources of models:

(a) models obtained by *reading generated source text*: a JSON "model IR" is
    generated and spelled as Hy source by `to_text(ir, rng)` with random
    spellings (sugar or long form, numeric spellings, string escapes, raw and
    bracket strings, f-string field layout incl. `=` debugging, separators,
    comments, `#_` discards). The text is what the case stores; the model is
    whatever the reader under test makes of it.
(b) models *assembled with constructors* from the IR by `dec(ir)`:
    profile "readable" uses only reader-valid parts (the check verifies that
    premise with `to_text(ir)` + the reader), profile "any" additionally uses
    every attribute combination the constructors accept.
(c) the repository's own *.hy files (tree under test, env VERIF_REPO) as a
    human-written corpus: every top-level form and every distinct compound
    sub-form, encoded to IR so that a replay does not depend on the files.

`to_text` is an independent printer (it shares no code with hy.repr).

IR: {"t": "Sym"|"Kw"|"Int"|"Float"|"Complex"|"Str"|"Bytes", "v": ...} and
{"t": "Expr"|"List"|"Tuple"|"Set"|"Dict"|"FStr"|"FComp", "c": [...]} with
"b" (brackets), "ts" (is_tstring), "conv", "expr" where they apply.
"""
import glob
import json
import math
import os
import unicodedata

SEQ = {"Expr": "Expression", "List": "List", "Tuple": "Tuple", "Set": "Set", "Dict": "Dict"}
OPEN = {"Expr": ("(", ")"), "List": ("[", "]"), "Tuple": ("#(", ")"), "Set": ("#{", "}"),
        "Dict": ("{", "}")}
SUGAR = {"quote": "'", "quasiquote": "`", "unquote": "~", "unquote-splice": "~@",
         "unpack-iterable": "#* ", "unpack-mapping": "#** "}
QQ_HEADS = ("quote", "quasiquote", "unquote", "unquote-splice")


# --------------------------------------------------------------- IR <-> models

def enc(m):
    import hy.models as M
    t = type(m)
    if t is M.Symbol:
        return {"t": "Sym", "v": str(m)}
    if t is M.Keyword:
        return {"t": "Kw", "v": m.name}
    if t is M.Integer:
        return {"t": "Int", "v": str(int(m))}
    if t is M.Float:
        return {"t": "Float", "v": float.__repr__(m)}
    if t is M.Complex:
        return {"t": "Complex", "v": [repr(m.real), repr(m.imag)]}
    if t is M.String:
        return {"t": "Str", "v": str(m), "b": m.brackets}
    if t is M.Bytes:
        return {"t": "Bytes", "v": bytes(m).decode("latin-1")}
    if t is M.FString:
        return {"t": "FStr", "c": [enc(x) for x in m], "b": m.brackets, "ts": bool(m.is_tstring)}
    if t is M.FComponent:
        return {"t": "FComp", "c": [enc(x) for x in m], "conv": m.conversion,
                "expr": m.expression, "ts": bool(m.is_tstring)}
    for k, name in SEQ.items():
        if t is getattr(M, name):
            return {"t": k, "c": [enc(x) for x in m]}
    raise TypeError(f"not a model: {t.__name__}")


def dec(j):
    import hy.models as M
    t = j["t"]
    if t == "Sym":
        return M.Symbol(j["v"], from_parser=True)
    if t == "Kw":
        return M.Keyword(j["v"], from_parser=True)
    if t == "Int":
        return M.Integer(int(j["v"]))
    if t == "Float":
        return M.Float(float(j["v"]))
    if t == "Complex":
        return M.Complex(float(j["v"][0]), float(j["v"][1]))
    if t == "Str":
        return M.String(j["v"], brackets=j.get("b"))
    if t == "Bytes":
        return M.Bytes(j["v"].encode("latin-1"))
    kids = [dec(x) for x in j["c"]]
    if t == "FStr":
        return M.FString(kids, brackets=j.get("b"), is_tstring=bool(j.get("ts")))
    if t == "FComp":
        return M.FComponent(kids, conversion=j.get("conv"), expression=j.get("expr"),
                            is_tstring=bool(j.get("ts")))
    return getattr(M, SEQ[t])(kids)


def sym(v):
    return {"t": "Sym", "v": v}


def expr(*c):
    return {"t": "Expr", "c": list(c)}


def walk(j, parent=None, idx=None):
    yield j, parent, idx
    for i, c in enumerate(j.get("c", ())):
        yield from walk(c, j, i)


def map_ir(j, f):
    """Bottom-up rewrite: f(node_with_mapped_children) -> node."""
    if "c" in j:
        j = dict(j, c=[map_ir(c, f) for c in j["c"]])
    return f(j)


def ir_size(j):
    return sum(1 for _ in walk(j))


def ir_depth(j):
    return 1 + max((ir_depth(c) for c in j.get("c", ())), default=0)


def all_dots(s):
    return bool(s) and not s.strip(".")


def sugar_head(j):
    """Name of the sugar this Expr would print/read as, else None."""
    if j["t"] != "Expr" or not j["c"] or j["c"][0]["t"] != "Sym":
        return None
    h = j["c"][0]["v"]
    if len(j["c"]) == 2 and h in SUGAR:
        return h
    if len(j["c"]) >= 3 and all(c["t"] == "Sym" for c in j["c"]):
        if h == "." or (all_dots(h) and j["c"][1]["v"] == "None"):
            return "dotted"
    return None


def features(j):
    """Tags describing which input classes a model tree reaches."""
    out = set()
    for n, parent, idx in walk(j):
        t = n["t"]
        out.add("T:" + t)
        if t in ("Str", "FStr") and n.get("b") is not None:
            out.add("bracket-string")
            out.add("attr:brackets")
            first = n["v"] if t == "Str" else (n["c"][0]["v"] if n["c"] and n["c"][0]["t"] == "Str" else "")
            if first.startswith("\n"):
                out.add("leading-newline")
        if t == "FStr":
            out.add("fstring")
            if n.get("ts"):
                out.update(("tstring", "attr:tstring"))
        if t == "FComp":
            if n.get("conv") is not None:
                out.add("attr:conversion")
            if n.get("expr") is not None:
                out.add("attr:expression")
            if n.get("ts"):
                out.add("attr:tstring")
            if len(n["c"]) > 1:
                out.add("fspec")
            if len(n["c"]) > 2:
                out.add("multi-spec")
            if any(c["t"] == "FComp" for c in n["c"][1:]):
                out.add("nested-spec")
            if any(c["t"] == "Str" and ("{" in c["v"] or "}" in c["v"]) for c in n["c"][1:]):
                out.add("spec-braces")
            if n["c"] and n["c"][0]["t"] == "Dict":
                out.add("fcomp-brace-value")
            if parent is None or parent["t"] not in ("FStr", "FComp"):
                out.add("fcomp-outside-fstring")
        if t in SEQ and not n["c"]:
            out.add("empty-seq")
        if t == "Dict" and len(n["c"]) % 2:
            out.add("odd-dict")
        if t == "Kw" and n["v"] == "":
            out.add("kw-empty")
        if t == "Sym" and (n["v"] in SPECIAL_SYMS):
            out.add("special-symbol")
        if t == "Float" and n["v"] in ("nan", "inf", "-inf"):
            out.add("nan-inf")
        if t == "Complex" and any(x.lstrip("-") in ("nan", "inf") for x in n["v"]):
            out.add("nan-inf")
        sh = sugar_head(n)
        if sh:
            out.add("sugar")
            out.add("sugar:" + sh)
            if sh == "dotted" and any(all_dots(c["v"]) for c in n["c"][1:]):
                out.add("dotted-dots-part")
    return out


# ----------------------------------------------------------- independent printer

def _num(x):
    """Spell one float component in Hy syntax."""
    if x != x:
        return "NaN"
    if x in (math.inf, -math.inf):
        return "Inf" if x > 0 else "-Inf"
    return repr(x)


def spell_int(v, rng):
    n = int(v)
    if rng is None or rng.random() < 0.45:
        return str(n)
    a, sign = abs(n), ("-" if n < 0 else ("+" if rng.random() < 0.15 else ""))
    k = rng.randrange(5)
    if k == 0:
        body = rng.choice([hex(a), "0X%X" % a, "0x%x" % a])
    elif k == 1:
        body = oct(a)
    elif k == 2:
        body = bin(a)
    elif k == 3:
        ds = str(a)
        body = ds[0] + "".join((rng.choice(["_", ",", "__", ""]) if rng.random() < 0.4 else "") + d
                               for d in ds[1:]) + rng.choice(["", "", "_", ","])
    else:
        body = ("0" * rng.randint(1, 3) if sign == "" else "") + str(a)
    return sign + body


def spell_float(v, rng):
    x = float(v)
    s = _num(x)
    if rng is None or x != x or x in (math.inf, -math.inf) or rng.random() < 0.5:
        return s
    k = rng.randrange(4)
    if k == 0:
        return s.replace("e", "E")
    if k == 1 and s.endswith(".0"):
        return s[:-1]
    if k == 2 and (s.startswith("0.") or s.startswith("-0.")):
        return s.replace("0.", ".", 1)
    if k == 3 and not s.startswith("-") and "e" not in s:
        return "+" + s
    return s


def spell_complex(v, rng):
    re_, im = float(v[0]), float(v[1])
    ims = _num(abs(im)) if im == im else "NaN"
    neg = im == im and math.copysign(1.0, im) < 0
    j = "J" if rng is not None and rng.random() < 0.2 else "j"
    if re_ == 0 and math.copysign(1.0, re_) > 0 and not neg:
        return ims + j
    return _num(re_) + ("-" if neg else "+") + ims + j


def _uname(ch):
    try:
        return unicodedata.name(ch)
    except ValueError:
        return None


def esc_text(s, rng=None, fmode=False, raw=False, named_ok=True):
    """Spell the characters of a string inside a "..." literal (or, raw=True,
    inside a raw / bracket literal where nothing is escaped)."""
    out = []
    for i, ch in enumerate(s):
        o = ord(ch)
        if fmode and ch in "{}":
            out.append(ch * 2)
        elif raw:
            out.append(ch)
        elif ch == '"':
            out.append('\\"')
        elif ch == "\\":
            # an escaped backslash directly before N{ is spelled \x5c: the
            # reader's \N{...} look-behind is a reader matter (C23/C24)
            out.append("\\x5c" if fmode and s[i + 1:i + 3] == "N{" else "\\\\")
        elif ch == "\r":
            out.append("\\r")
        elif ch == "\n":
            out.append("\n" if rng is not None and rng.random() < 0.5 else "\\n")
        elif o < 32 or o == 127 or 0x80 <= o < 0xA0:
            out.append("\\x%02x" % o)
        elif 0xD800 <= o <= 0xDFFF:
            out.append("\\u%04x" % o)
        elif rng is not None and rng.random() < 0.06:
            forms = []
            if o < 256:
                forms += ["\\x%02x" % o, "\\%03o" % o]
            if o < 65536:
                forms.append("\\u%04x" % o)
            forms.append("\\U%08x" % o)
            nm = _uname(ch) if named_ok else None
            if nm:
                forms.append("\\N{%s}" % nm)
            out.append(rng.choice(forms))
        else:
            out.append(ch)
    return "".join(out)


def spell_bytes(v, rng=None):
    out = []
    for ch in v:
        o = ord(ch)
        if 32 <= o < 127 and ch not in '"\\' and not (rng is not None and rng.random() < 0.05):
            out.append(ch)
        elif ch == '"':
            out.append('\\"')
        elif ch == "\\":
            out.append("\\\\")
        elif ch == "\n" and rng is not None and rng.random() < 0.5:
            out.append("\\n")
        else:
            out.append("\\x%02x" % o)
    return 'b"' + "".join(out) + '"'


def _raw_ok(s):
    return '"' not in s and "\r" not in s and not s.endswith("\\")


def spell_str(j, rng):
    s, b = j["v"], j.get("b")
    if b is not None:
        lead = "\n" if s.startswith("\n") or (rng is not None and rng.random() < 0.2) else ""
        return "#[" + b + "[" + lead + s + "]" + b + "]"
    if rng is not None and "\\" not in s and _raw_ok(s) and rng.random() < 0.1:
        return 'r"' + s + '"'
    return '"' + esc_text(s, rng) + '"'


def _sep(rng):
    if rng is None or rng.random() < 0.7:
        return " "
    return rng.choice(["  ", "\n", "\t", " \n ", " ; c\n", " #_ junk ", " #_ (d 1) ", "\n;; x\n"])


def _pad(rng):
    if rng is None or rng.random() < 0.8:
        return ""
    return rng.choice([" ", "\n", "  ", " ;c\n"])


SAFE_DOT_PART = set("abcdefghijklmnopqrstuvwxyzABCDEFGHIJKLMNOPQRSTUVWXYZ_-?!*+<>=&%$")


def _dot_part_ok(v):
    return bool(v) and set(v) <= SAFE_DOT_PART | set("0123456789") and v[0] in SAFE_DOT_PART \
        and v[0] not in "+-" and not all_dots(v)


def spell_fcomp(j, rng, raw):
    kids = j["c"]
    if not kids:
        raise Unprintable("empty FComponent")
    form = to_text(kids[0], rng)
    lead = " " if form[:1] == "{" else ("" if rng is None else rng.choice(["", "", " ", "  "]))
    out = ["{", lead, form]
    conv = j.get("conv")
    debug = (rng is not None and rng.random() < 0.15 and conv in (None, "r", "s", "a"))
    if debug:
        out.append(rng.choice([" ", "  "]) + "=" + rng.choice(["", " ", "  "]))
    if conv is not None:
        if len(conv) != 1:
            raise Unprintable("conversion is not one character")
        out.append(("" if debug else " ") + "!" + conv)
    if len(kids) > 1:
        out.append(" :" if rng is None else rng.choice([" :", "  :", "\n:"]) if not debug or conv else ":")
        for k in kids[1:]:
            if k["t"] == "Str":
                # (a `}` always ends a format spec, so a spec string holding one has
                # no spelling; \N{...} is not used in specs for the same reason)
                if "}" in k["v"]:
                    raise Unprintable("'}' in a format-spec string")
                out.append(esc_text(k["v"], rng, fmode=True, raw=raw, named_ok=False))
            elif k["t"] == "FComp":
                out.append(spell_fcomp(k, rng, raw))
            else:
                raise Unprintable("format spec child is neither String nor FComponent")
    elif rng is not None and not debug and rng.random() < 0.2:
        out.append(" ")
    out.append("}")
    return "".join(out)


class Unprintable(Exception):
    """The IR has no spelling as Hy source (so no reader could produce it)."""


def spell_fstr(j, rng):
    b = j.get("b")
    raw = b is not None
    if raw and j.get("ts") and not (b == "t" or b.startswith("t-")):
        raise Unprintable("bracket t-string needs a t delimiter")
    if not raw and rng is not None and rng.random() < 0.1 and \
            all(c["t"] != "Str" or ("\\" not in c["v"] and _raw_ok(c["v"]) and '"' not in c["v"])
                for _, c in _fstr_strings(j)):
        raw = "r"
    parts = []
    for k in j["c"]:
        if k["t"] == "Str":
            if k.get("b") is not None:
                raise Unprintable("bracket string inside f-string")
            parts.append(esc_text(k["v"], rng, fmode=True, raw=bool(raw)))
        elif k["t"] == "FComp":
            parts.append(spell_fcomp(k, rng, bool(raw)))
        else:
            raise Unprintable("f-string child is neither String nor FComponent")
    body = "".join(parts)
    if b is not None:
        first = j["c"][0]["v"] if j["c"] and j["c"][0]["t"] == "Str" else ""
        lead = "\n" if first.startswith("\n") or (rng is not None and rng.random() < 0.2) else ""
        return "#[" + b + "[" + lead + body + "]" + b + "]"
    prefix = "t" if j.get("ts") else "f"
    if raw == "r":
        prefix = rng.choice(["r" + prefix, prefix + "r"])
    return prefix + '"' + body + '"'


def _fstr_strings(j):
    for n, p, i in walk(j):
        if n["t"] == "Str":
            yield p, n


def to_text(j, rng=None):
    """Spell IR `j` as Hy source. rng=None: one plain canonical spelling
    (no sugar); with rng: random equivalent spellings."""
    t = j["t"]
    if t == "Sym":
        return j["v"]
    if t == "Kw":
        return ":" + j["v"]
    if t == "Int":
        return spell_int(j["v"], rng)
    if t == "Float":
        return spell_float(j["v"], rng)
    if t == "Complex":
        return spell_complex(j["v"], rng)
    if t == "Str":
        return spell_str(j, rng)
    if t == "Bytes":
        return spell_bytes(j["v"], rng)
    if t == "FStr":
        return spell_fstr(j, rng)
    if t == "FComp":
        raise Unprintable("FComponent outside an f-string")
    kids = j["c"]
    if t == "Expr" and rng is not None and rng.random() < 0.75:
        sh = sugar_head(j)
        if sh == "dotted":
            h = kids[0]["v"]
            if kids[1]["v"] == "None":      # (. None a b) <-> .a.b ; (.. None a) <-> ..a
                if all(_dot_part_ok(k["v"]) for k in kids[2:]):
                    return h + ".".join(k["v"] for k in kids[2:])
            elif all(_dot_part_ok(k["v"]) for k in kids[1:]):   # (. a b c) <-> a.b.c
                return ".".join(k["v"] for k in kids[1:])
        elif sh:
            arg = to_text(kids[1], rng)
            gap = rng.choice(["", "", " "])
            if sh == "unquote" and arg.startswith("@") and not gap:
                gap = " "
            return SUGAR[sh] + gap + arg
        if len(kids) == 3 and kids[0] == sym("annotate") and rng.random() < 0.8:
            return "#^ " + to_text(kids[2], rng) + " " + to_text(kids[1], rng)
    o, c = OPEN[t]
    texts = [to_text(k, rng) for k in kids]
    body = ""
    for i, s in enumerate(texts):
        body += (_sep(rng) if i else "") + s
    return o + _pad(rng) + body + _pad(rng) + c


# ------------------------------------------------------------------ generators

SPECIAL_SYMS = ["None", "True", "False", "...", ".", "..", "quote", "unquote", "unquote-splice",
                "quasiquote", "hy", "unpack-iterable", "unpack-mapping", "annotate", "unquote_splice",
                "....", "fn", "setv", "do"]
PLAIN_SYMS = ["a", "b", "foo", "foo-bar", "x1", "f", "t", "r", "N", "spam?", "set!", "*", "+", "-",
              "<=", "&rest", "@x", "@", "$40", "3fiddy", "_", "__init__", "-x", "_1", "1+", "j", "J",
              "e5", "nan", "inf", "1a", "a:b", "a#b", "x=", "!r", "p:9", "a!", "=", "!", "λ",
              "just✈wrong", "🦑", "naïve", "ℵ0", "|", "a\\b", "^", "%", "x,y", "--", "->>"]
KW_NAMES = ["", "a", "foo-bar", ":x", "a:b", "+", "1", "None", "λ", "a#", "=", "from_parser", "!r",
            "kw?", "_", "-", "x,y"]
STR_ALPHA = list("abcxyz AZ019") + ['"', "\\", "{", "}", "\n", "\t", "'", "]", "[", "#", ";", "(",
                                    ")", "~", "`", "N", "é", "☃", "𝔘", "\x00", "\x7f", "\x85", " ",
                                    "́", "\r", "!", ":", "=", "%"]
DELIMS = ["", "", "x", "==", "ff", "-", "foo bar", "F", "t", "t-x", "#", "(", "é", "f f"]
FDELIMS = ["f", "f", "f-x", "f-", "f-f", "f- y", "f-é"]
INTS = [0, 1, -1, 2, 7, 10, 255, -128, 10 ** 20, -2 ** 63, 123456789, 1000000]
FLOATS = ["0.0", "-0.0", "1.5", "-2.25", "1e+100", "1e-07", "1e+16", "nan", "inf", "-inf", "0.1",
          "3.141592653589793", "5e-324", "123456.789"]
COMPLEXES = [["0.0", "1.0"], ["0.0", "-1.0"], ["1.0", "2.0"], ["nan", "inf"], ["0.0", "0.0"],
             ["-0.0", "2.5"], ["inf", "-inf"], ["1.5", "nan"], ["-3.0", "-0.0"], ["1e-05", "1e+20"],
             ["0.0", "inf"], ["0.0", "nan"], ["-inf", "1.0"], ["1.0", "-0.0"], ["-0.0", "-0.0"],
             ["2.5", "-0.0"], ["inf", "-0.0"], ["nan", "-0.0"]]
BYTES = ["", "abc", "\x00\xff\"\\\n", "a b", "\r\n\t", "{x}", "'", "\x80\x7f"]
CONVS = [None, None, None, "r", "s", "a", "r", "s"]
ODD_CONVS = ["z", "R", "1", "!", ":", " ", "}", "é"]


def gen_sym(rng, kind=None):
    r = rng.random()
    if kind == "special" or (kind is None and r < 0.3):
        return sym(rng.choice(SPECIAL_SYMS[:16]))
    if r < 0.85:
        return sym(rng.choice(PLAIN_SYMS))
    n = rng.randint(1, 5)
    s = "".join(rng.choice("abxyz-_?!*+<>=&0123456789é") for _ in range(n))
    try:
        float(s.replace("_", "").replace(",", ""))
        s = "s" + s
    except ValueError:
        pass
    if s[0].isdigit() or s[0] in "+-" or s.lower() in ("j",):
        s = "s" + s
    return sym(s)


def gen_string(rng, brackets=False, prof="readable"):
    n = rng.choice([0, 1, 1, 2, 3, 5, 8])
    s = "".join(rng.choice(STR_ALPHA) if rng.random() < 0.6 else rng.choice("abc xyz")
                for _ in range(n))
    r = rng.random()
    if brackets and r < 0.3:
        s = rng.choice(["\n", "\n\n", "\n ", "\n\t"]) + s
    if not brackets and r < 0.08:       # backslash N brace: looks like a named escape when printed
        s += rng.choice(["\\N{", "\\N{x}", "\\\\N{BULLET}", "\\N{{"])
    b = None
    if brackets:
        b = rng.choice(DELIMS)
        if prof == "any" and rng.random() < 0.2:
            b = rng.choice(FDELIMS)
        s = s.replace("\r", "\n")
        while "]" + b + "]" in s:
            s = s.replace("]" + b + "]", "]")
        # content whose end would merge with the closer (e.g. "x]" with delimiter "") is not
        # expressible; the String constructor rejects it since fix 70922de
        closer = "]" + b + "]"
        while (s + closer).find(closer) != len(s):
            s += "."
    return {"t": "Str", "v": s, "b": b}


def gen_atom(rng, prof="readable"):
    k = rng.randrange(10)
    if k <= 2:
        return gen_sym(rng)
    if k == 3:
        return {"t": "Kw", "v": rng.choice(KW_NAMES) if prof == "readable" or rng.random() < 0.8
                else rng.choice(["a.b", ".", "a.b.c"])}
    if k == 4:
        v = rng.choice(INTS) if rng.random() < 0.7 else rng.randint(-10 ** 6, 10 ** 6)
        return {"t": "Int", "v": str(v)}
    if k == 5:
        v = rng.choice(FLOATS) if rng.random() < 0.7 else repr(rng.uniform(-1e3, 1e3))
        return {"t": "Float", "v": v}
    if k == 6:
        return {"t": "Complex", "v": list(rng.choice(COMPLEXES))}
    if k == 7:
        return {"t": "Bytes", "v": rng.choice(BYTES)}
    return gen_string(rng, brackets=(k == 9), prof=prof)


def gen_spec(rng, depth, prof, nest):
    """Children 1.. of an FComponent: literal strings and nested fields."""
    n = rng.choice([1, 1, 1, 2, 2, 3])
    out = []
    for _ in range(n):
        if (not out or out[-1]["t"] != "Str") and rng.random() < 0.55:
            s = "".join(rng.choice(list(">^<+-#0,._%dfsxeg 9") + ["{", "{", "!", ":", "é", "\\", '"', "\n"]
                                   + (["}"] if prof == "any" else []))
                        for _ in range(rng.randint(1, 4)))
            out.append({"t": "Str", "v": s, "b": None})
        else:
            out.append(gen_fcomp(rng, depth - 1, prof, nest + 1, False))
    return out


def gen_fcomp(rng, depth, prof, nest=0, ts=False):
    r = rng.random()
    if r < 0.45:
        val = gen_sym(rng, "plain")
    elif r < 0.6:
        val = rng.choice([{"t": "Dict", "c": [gen_atom(rng, prof), gen_atom(rng, prof)]},
                          {"t": "Dict", "c": []}, {"t": "Dict", "c": [gen_ir(rng, max(0, depth - 1), prof)]},
                          {"t": "Set", "c": [gen_atom(rng, prof)]},
                          gen_string(rng, False, prof), gen_fstr(rng, depth - 1, prof),
                          {"t": "Kw", "v": rng.choice(KW_NAMES)}])
    else:
        val = gen_ir(rng, max(0, depth - 1), prof)
    conv = rng.choice(CONVS)
    if rng.random() < 0.06:
        conv = rng.choice(ODD_CONVS)
    kids = [val]
    if nest < 2 and rng.random() < 0.5:
        kids += gen_spec(rng, depth, prof, nest)
    j = {"t": "FComp", "c": kids, "conv": conv, "expr": None, "ts": bool(ts and nest == 0)}
    if prof == "readable":
        try:
            j["expr"] = to_text(val)
        except Unprintable:
            j["expr"] = None
    else:
        j["expr"] = rng.choice([None, "", "x", "(+ 1\n 2)", "  spaced ", 'q"q'])
        if rng.random() < 0.3:
            j["ts"] = rng.random() < 0.5
        if rng.random() < 0.1:
            j["conv"] = rng.choice(["", "rr", "é"])
        if rng.random() < 0.05:
            j["c"] = []
    return j


def gen_fstr(rng, depth, prof, brackets=None):
    if brackets is None:
        brackets = rng.random() < 0.3
    ts = rng.random() < 0.25
    b = None
    if brackets:
        b = rng.choice(FDELIMS)
        if ts:
            b = rng.choice(["t", "t-x"]) if prof == "any" else b
            ts = prof == "any"
        if prof == "any" and rng.random() < 0.25:
            b = rng.choice(DELIMS)
    kids = []
    for _ in range(rng.choice([0, 1, 1, 2, 3, 4])):
        if (not kids or kids[-1]["t"] != "Str") and rng.random() < 0.5:
            s = gen_string(rng, False, prof)
            if b is not None:
                s["v"] = s["v"].replace("\r", "\n").replace("]" + b + "]", "]")
            if not kids and b is not None and rng.random() < 0.3:
                s["v"] = "\n" + s["v"]
            if s["v"] or prof == "any":
                kids.append(s)
        else:
            kids.append(gen_fcomp(rng, max(0, depth), prof, 0, ts))
    return {"t": "FStr", "c": kids, "b": b, "ts": ts}


def gen_sugar(rng, depth, prof):
    h = rng.choice(list(SUGAR) + ["annotate"])
    r = rng.random()
    if h == "annotate":
        return expr(sym(h), gen_ir(rng, depth - 1, prof), gen_ir(rng, depth - 1, prof))
    if r < 0.12:   # unusual arity
        return expr(sym(h), *[gen_ir(rng, depth - 1, prof) for _ in range(rng.choice([0, 2, 3]))])
    if r < 0.4:
        # forms whose printed text starts with `@` (after `~` they must not read as `~@`)
        arg = rng.choice([sym("@x"), sym("@"), sym("*x"), sym("a"), gen_sym(rng),
                          expr(sym("."), sym("@a"), sym("b")), expr(sym("."), sym("@"), sym("b")),
                          expr(sym("."), sym("@x"), gen_sym(rng, "plain"), sym("c")),
                          expr(sym("."), sym("@@"), sym("y"))])
        if rng.random() < 0.5:
            h = "unquote"
    else:
        arg = gen_ir(rng, depth - 1, prof)
    return expr(sym(h), arg)


def gen_dotted(rng, prof):
    r = rng.random()
    # corner cases: all-dots parts, parts that make the dotted spelling a number (._1), None
    parts = [gen_sym(rng, "plain") if rng.random() < 0.8 else
             sym(rng.choice([".", "..", "...", "None", "_1", ",1", "_1e5", "_1j", "_0"]))
             for _ in range(rng.choice([1, 1, 2, 3, 4]))]
    if r < 0.45:
        if len(parts) < 2:
            parts.append(sym("b"))
        return expr(sym("."), *parts)
    if r < 0.85:
        return expr(sym(rng.choice([".", ".", "..", "..."])), sym("None"), *parts)
    return expr(sym(rng.choice([".", "..", "None"])), *parts)


def gen_seq(rng, depth, prof):
    t = rng.choice(["Expr", "Expr", "List", "List", "Tuple", "Set", "Dict"])
    n = rng.choice([0, 1, 1, 2, 2, 3, 4])
    return {"t": t, "c": [gen_ir(rng, depth - 1, prof) for _ in range(n)]}


FOCI = ["fstring", "bracket", "sugar", "dotted", "atom", "seq", "mixed", "fstring"]


def gen_ir(rng, depth=3, prof="readable", focus=None):
    """A random model IR. prof "readable": only reader-valid parts; "any":
    also attribute combinations only constructors can make."""
    if focus is None or focus == "mixed":
        focus = rng.choice(FOCI)
    if depth <= 0:
        return gen_atom(rng, prof)
    r = rng.random()
    if focus == "fstring" and r < 0.5:
        return gen_fstr(rng, depth - 1, prof)
    if focus == "bracket" and r < 0.5:
        return gen_string(rng, True, prof) if r < 0.3 else gen_fstr(rng, depth - 1, prof, True)
    if focus == "sugar" and r < 0.5:
        return gen_sugar(rng, depth, prof)
    if focus == "dotted" and r < 0.5:
        return gen_dotted(rng, prof)
    if focus == "atom" and r < 0.4:
        return gen_atom(rng, prof)
    if prof == "any" and r > 0.95:
        return gen_fcomp(rng, depth - 1, prof, rng.choice([0, 2]), rng.random() < 0.3)
    if r > 0.9:
        return gen_atom(rng, prof)
    j = gen_seq(rng, depth, prof)
    if j["c"] and rng.random() < 0.3:
        j["c"][rng.randrange(len(j["c"]))] = gen_ir(rng, depth - 1, prof, focus)
    return j


def hostile_any(rng):
    """Model parts only constructors (from_parser=True, keyword args) can make."""
    return rng.choice([
        {"t": "Kw", "v": "a.b"}, {"t": "Kw", "v": ".x"}, {"t": "Kw", "v": ""}, sym("..."),
        {"t": "Str", "v": "s", "b": "f"}, {"t": "Str", "v": "\nq", "b": "f-x"},
        {"t": "FStr", "c": [], "b": "", "ts": True}, {"t": "FStr", "c": [{"t": "Str", "v": "", "b": None}],
                                                      "b": None, "ts": False},
        {"t": "FComp", "c": [], "conv": None, "expr": None, "ts": True},
        {"t": "FComp", "c": [sym("x")], "conv": "s", "expr": "", "ts": False},
        {"t": "FComp", "c": [sym("x"), {"t": "Int", "v": "3"}], "conv": "", "expr": "x", "ts": True},
    ])


# ---------------------------------------------------------------------- corpus

def corpus_iter(shard=0, nshards=1, repo=None, max_size=150):
    """Lazily yield (label, ir) for every top-level form and every distinct compound
    sub-form of the *.hy files of the tree under test (one file is read at a time, so
    a worker does not stall at start-up); items are dealt round-robin to shards."""
    repo = os.path.abspath(repo or os.environ.get("VERIF_REPO", "/repo"))
    from hy.reader import read_many
    seen, n_item = set(), 0
    files = sorted(glob.glob(os.path.join(repo, "**", "*.hy"), recursive=True))
    for path in files:
        rel = os.path.relpath(path, repo)
        if rel.startswith(".git"):
            continue
        try:
            with open(path, encoding="utf-8") as f:
                src = f.read()
        except (OSError, UnicodeDecodeError):
            continue
        forms = []
        try:
            for form in read_many(src, filename=rel, skip_shebang=True):
                forms.append(form)
        except Exception:
            pass    # e.g. a reader macro defined by the file itself: keep what was read
        for n, form in enumerate(forms):
            try:
                top = enc(form)
            except TypeError:
                continue
            for sub, _, _ in walk(top):
                if "c" not in sub and not (sub["t"] == "Str" and sub.get("b") is not None):
                    continue
                if ir_size(sub) > max_size:
                    continue
                key = json.dumps(sub, sort_keys=True)
                if key in seen:
                    continue
                seen.add(key)
                n_item += 1
                if n_item % nshards == shard:
                    yield f"{rel}#{n}", sub


def corpus_irs(repo=None, max_size=150):
    """The whole corpus as a list (see corpus_iter)."""
    return list(corpus_iter(0, 1, repo, max_size))


def known_keys(pid):
    """Mechanism keys already recorded for `pid` (read-only; used only to
    order attribution so that an unrecorded mechanism is reported first)."""
    keys = set()
    here = os.path.dirname(os.path.dirname(os.path.abspath(__file__)))
    for path in (os.path.join(here, "known_findings.json"), os.environ.get("VERIF_KNOWN_EXTRA")):
        if path and os.path.exists(path):
            try:
                with open(path) as f:
                    for e in json.load(f).get("findings", []):
                        if e.get("property") == pid and e.get("status") == "known":
                            keys.add(e["key"])
            except (OSError, ValueError):
                pass
    return keys


def attribute(ir, fails, normalisers, pid):
    """Attribute a failing model to a mechanism key. `normalisers` is a list of
    (key, feature_predicate(ir), normalise(ir)). A key is returned only if the
    feature is present and the failure disappears when just that feature is
    normalised away (from the model with the *other* candidate features also
    normalised, when several are present). Unrecorded keys are preferred."""
    present = [(k, norm) for k, has, norm in normalisers if has(ir)]
    if not present:
        return None, []

    def apply(keys):
        j = ir
        for k, norm in present:
            if k in keys:
                j = norm(j)
        return j

    allk = [k for k, _ in present]
    if fails(apply(allk)):
        return None, []          # still violates with every known feature removed
    needed = [k for k in allk if fails(apply([x for x in allk if x != k]))]
    if needed:
        known = known_keys(pid)
        needed.sort(key=lambda k: (k in known, allk.index(k)))
        return needed[0], needed
    # No feature fails on its own: several normalisers overlap (each removes the failure).
    # `normalisers` lists the most specific mechanism first, so take that order.
    alt = [k for k in allk if not fails(apply([k]))] or allk
    return alt[0], alt
