"""Deterministic thread scheduler for C38: turns every sys.monitoring LINE or
INSTRUCTION event of selected code objects into a yield point, runs exactly one
managed thread at a time, and enumerates interleavings by depth-first search of
the schedule tree with an optional preemption bound.

Any execution that occurs here is a real execution of the real code; the
scheduler only restricts *which* thread the OS may run next.
"""
import queue
import sys
import threading

TOOL = 3


class LockProxy:
    """Stands in for a threading.Lock found in the module under test so that the
    scheduler knows when a managed thread would block."""

    def __init__(self, real, ctl):
        self._real = real
        self._ctl = ctl

    def acquire(self, blocking=True, timeout=-1):
        tid = self._ctl.tid()
        if tid is None or not self._ctl.active or self._ctl.mode != "sched":
            return self._real.acquire(blocking, timeout)
        while not self._real.acquire(False):
            if not blocking:
                return False
            self._ctl.report(tid, "blocked", None)
            self._ctl.wait_turn(tid)
        return True

    def release(self):
        self._real.release()
        self._ctl.lock_released()

    def locked(self):
        return self._real.locked()

    def __enter__(self):
        self.acquire()
        return self

    def __exit__(self, *a):
        self.release()


class Controller:
    """Holds the monitoring hook and the per-run scheduler state."""

    def __init__(self, codes, level="line"):
        self.codes = set(codes)
        self.level = level
        self.active = False
        self.idents = {}
        self.events_fired = 0
        self.mode = "sched"      # or "inject"
        self.inject_p = 0.0
        self.inject_rng = None
        self.inject_yields = 0
        mon = sys.monitoring
        try:
            mon.use_tool_id(TOOL, "hv-sched")
        except ValueError:
            pass
        ev = mon.events.LINE if level == "line" else mon.events.INSTRUCTION
        self._ev = ev
        for c in self.codes:
            mon.set_local_events(TOOL, c, ev)
        mon.register_callback(TOOL, ev, self._cb)

    def close(self):
        mon = sys.monitoring
        for c in self.codes:
            mon.set_local_events(TOOL, c, 0)
        mon.register_callback(TOOL, self._ev, None)
        try:
            mon.free_tool_id(TOOL)
        except Exception:
            pass

    def tid(self):
        return self.idents.get(threading.get_ident())

    # -- monitoring callback (runs in the thread executing the code)
    def _cb(self, code, pos):
        if not self.active:
            return
        tid = self.idents.get(threading.get_ident())
        if tid is None:
            return
        self.events_fired += 1
        if self.mode == "inject":
            if self.inject_rng.random() < self.inject_p:
                self.inject_yields += 1
                import time
                time.sleep(0)
            return
        self.report(tid, "ready", (code.co_name, pos))
        self.wait_turn(tid)

    # -- scheduler plumbing
    def report(self, tid, state, pos):
        self.q.put((tid, state, pos))

    def wait_turn(self, tid):
        self.sems[tid].acquire()

    def lock_released(self):
        if self.active and self.mode == "sched":
            self.q.put((None, "released", None))

    def run_schedule(self, bodies, prefix, timeout=1.0):
        """Run thread bodies (callables) under the schedule `prefix` (list of thread
        ids chosen at successive decision points; afterwards: keep running the
        current thread while enabled, else the lowest enabled).
        Returns dict(decisions=[(enabled tuple, chosen, current)], order=[(tid,pos)],
        results=[...], stuck=int)."""
        n = len(bodies)
        self.q = queue.Queue()
        self.sems = [threading.Semaphore(0) for _ in range(n)]
        self.idents = {}
        results = [None] * n
        state = ["new"] * n        # new/ready/blocked/stuck/done
        self.mode = "sched"

        def runner(i):
            self.idents[threading.get_ident()] = i
            self.report(i, "ready", ("start", 0))
            self.wait_turn(i)
            try:
                results[i] = ("ok", bodies[i]())
            except BaseException as e:   # noqa
                results[i] = ("exc", repr(e))
            finally:
                self.report(i, "done", None)

        threads = [threading.Thread(target=runner, args=(i,), daemon=True) for i in range(n)]
        self.active = True
        for t in threads:
            t.start()
        # wait for all to reach their start point
        pending = n
        while pending:
            tid, st, pos = self.q.get(timeout=120)
            if st == "ready":
                state[tid] = "ready"
                pending -= 1
        decisions, order = [], []
        current = None
        stuck = 0
        step = 0
        while True:
            enabled = tuple(i for i in range(n) if state[i] == "ready")
            if not enabled:
                if all(s == "done" for s in state):
                    break
                # only blocked/stuck threads remain: let the blocked retry (lock may be free now)
                retry = [i for i in range(n) if state[i] in ("blocked",)]
                if not retry:
                    # stuck threads: wait for any spontaneous report
                    try:
                        tid, st, pos = self.q.get(timeout=timeout * 5)
                    except queue.Empty:
                        break
                    if tid is not None:
                        state[tid] = "ready" if st in ("ready", "blocked") else st
                    continue
                for i in retry:
                    state[i] = "ready"
                continue
            if step < len(prefix) and prefix[step] in enabled:
                chosen = prefix[step]
            elif current in enabled:
                chosen = current
            else:
                chosen = enabled[0]
            decisions.append((enabled, chosen, current))
            step += 1
            current = chosen
            state[chosen] = "running"
            self.sems[chosen].release()
            # wait for a report from `chosen`
            while True:
                try:
                    tid, st, pos = self.q.get(timeout=timeout)
                except queue.Empty:
                    state[chosen] = "stuck"   # blocked on something we do not proxy
                    stuck += 1
                    break
                if tid is None:               # a lock was released: blocked threads may retry
                    for i in range(n):
                        if state[i] == "blocked":
                            state[i] = "ready"
                    continue
                if tid != chosen:
                    # a previously stuck thread woke up and is now parked at a yield point
                    if st == "done":
                        state[tid] = "done"
                    else:
                        state[tid] = "ready" if st == "ready" else "blocked"
                    continue
                if st == "ready":
                    state[chosen] = "ready"
                    order.append((chosen, pos))
                elif st == "blocked":
                    state[chosen] = "blocked"
                    order.append((chosen, "blocked"))
                else:
                    state[chosen] = "done"
                break
        self.active = False
        # release anything still parked so threads can end
        for i in range(n):
            if state[i] != "done":
                for _ in range(1000):
                    self.sems[i].release()
        for t in threads:
            t.join(timeout=2)
        self.idents = {}
        return {"decisions": decisions, "order": order, "results": results, "stuck": stuck}

    def explore(self, make_bodies, bound=None, max_schedules=100000, shard=(1, 0), timeout=1.0):
        """Depth-first enumeration of schedules with at most `bound` preemptions
        (None = all interleavings). `make_bodies()` must return fresh thread bodies.
        Yields (prefix, run result). Sharding: top-level alternatives are split by
        decision index modulo shard[0]."""
        stack = [[]]
        count = 0
        while stack and count < max_schedules:
            prefix = stack.pop()
            res = self.run_schedule(make_bodies(), prefix, timeout=timeout)
            count += 1
            yield prefix, res
            dec = res["decisions"]
            # number of preemptions along the executed path, cumulative
            pre = 0
            pre_at = []
            for i, (enabled, chosen, cur) in enumerate(dec):
                pre_at.append(pre)
                if cur is not None and cur in enabled and chosen != cur:
                    pre += 1
            for i in range(len(dec) - 1, len(prefix) - 1, -1):
                enabled, chosen, cur = dec[i]
                for alt in enabled:
                    if alt == chosen:
                        continue
                    is_pre = cur is not None and cur in enabled and alt != cur
                    if bound is not None and pre_at[i] + (1 if is_pre else 0) > bound:
                        continue
                    if len(prefix) == 0 and shard[0] > 1 and i % shard[0] != shard[1]:
                        continue
                    stack.append([d[1] for d in dec[:i]] + [alt])

    def run_inject(self, bodies, p, rng):
        """Free-running threads with sleep(0) injected at monitored events."""
        n = len(bodies)
        self.mode = "inject"
        self.inject_p = p
        self.inject_rng = rng
        self.inject_yields = 0
        results = [None] * n
        start = threading.Barrier(n)

        def runner(i):
            self.idents[threading.get_ident()] = i
            start.wait()
            try:
                results[i] = ("ok", bodies[i]())
            except BaseException as e:  # noqa
                results[i] = ("exc", repr(e))

        threads = [threading.Thread(target=runner, args=(i,), daemon=True) for i in range(n)]
        self.active = True
        for t in threads:
            t.start()
        for t in threads:
            t.join(timeout=60)
        self.active = False
        self.idents = {}
        return results
