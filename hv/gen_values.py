"""Recursive generator of Python values for the hy.repr / hy.as-model checks
(C27, C28, C29).

Values are generated as a JSON-serialisable *IR* (so that a rendered case can
be replayed without the generator), then built into real Python objects by
`Builder`.  Everything is seeded explicitly through a `random.Random`.

IR node = dict with a type tag "t":

  leaves      none | bool{v} | int{v:str} | float{v:hex} | complex{re,im:hex}
              str{v} | bytes{v:hex} | bytearray{v:hex} | keyword{v}
              fraction{n,d:str} | range{a:[str,str,str]}
  containers  list|tuple|set|frozenset{c:[node]}   deque{c:[node],maxlen}
              dict|odict|counter{c:[[k,v]]}         ddict{f:name|None,c:[[k,v]]}
              chainmap{c:[dict node]}               slice{c:[node,node,node]}
  structure   ref{up:n}     the n-th enclosing container (1 = direct parent):
                            a self-reference (back-edge of the depth-first walk)
              share{lbl:k}  the object built earlier for the node labelled k
                            (a DAG edge: shared, *not* self-referential)
  any node may carry "lbl": k.

Check modules can add node types (harness boxes, models, unrepresentable
leaves) through `Builder(ext=...)` and by subclassing `Gen`.

Also here (shared by C28/C29): `EntryMonitor` (sys.monitoring entry counter
with a logical bound) and `fresh_process`, which puts a question to a
brand-new interpreter process.
"""
import collections
import fractions
import json
import math
import os
import struct
import subprocess
import sys

INF = float("inf")
NAN = float("nan")

LITERAL_TYPES = {"none", "bool", "int", "float", "complex", "str", "bytes",
                 "keyword", "list", "tuple", "dict", "set"}
NONLITERAL_TYPES = {"bytearray", "frozenset", "fraction", "range", "slice",
                    "deque", "odict", "counter", "ddict", "chainmap"}
SEQ_TYPES = {"list", "tuple", "set", "frozenset", "deque"}
MAP_TYPES = {"dict", "odict", "counter", "ddict"}
FACTORIES = {"int": int, "list": list, "dict": dict, "set": set, "str": str,
             "float": float, "tuple": tuple, "bool": bool}

# ---------------------------------------------------------------- leaf pools

SPECIAL_FLOATS = [
    0.0, -0.0, INF, -INF, NAN, 5e-324, -5e-324, 2.2250738585072014e-308,
    2.225073858507201e-308, 1.7976931348623157e308, -1.7976931348623157e308,
    0.1, 0.30000000000000004, 0.7999999999999999, 1e15, 1e16, 1e17,
    9007199254740993.0, 1e22, 1e23, 1e-4, 1e-5, 1e-7, 123456789012345678.0,
    1.0, -1.5, 1 / 3, 2 / 3, 1e100, 4.35, 2.675, 1.7976931348623157e-308,
    4.9406564584124654e-320, 0.1 + 0.7, 1234567.0, 1e-310, 3.14,
]

STR_CHARS = (
    list("abcxyz019 ") + ['"', "'", "\\", "\\", '"', "'"]
    + list("{}[]()#;~@`:,.\n\t\r\0\x07\x1b\x7f\x85")
    + [" ", "é", "ü", "λ", "你", "\U0001f600",
       " ", " ", "​", "﻿", "́", "",
       "\U0010ffff", "\ud800", "\udfff", "\udc80", "­", "‮", "N",
       "n", "u", "x", "U"])
BYTE_VALS = (list(b"abcxyz019 ") + [0x22, 0x27, 0x5c, 0x5c, 0x22, 0x27]
             + [0, 7, 9, 10, 13, 27, 0x7f, 0x80, 0xa0, 0xe9, 0xff, 0x7b, 0x7d,
                0x23, 0x5b, 0x5d])
KEYWORD_NAMES = ["foo", "a-b", "", "x?", "λ", "with_underscore", "1",
                 "a/b", "__init__", "éclair", "foo!", "*x*", "+", "->",
                 "=", "a#b", "&rest", "a:b", "-", "_", "if", "None", "x1"]
STR_FIXED = ["", "'", '"', "\\", "\\\\", "\\'", '\\"', "'\"", "a'b\"c",
             "\\n", "#[[", "]]", "{x}", "\\N{DASH}", "\\x41", "\\u0041",
             "it's", 'say "hi"', "\n", "\r\n", "tab\there", "\x00", "\ud800",
             "\udfff\ud800", "\U0001f600", "é", "'''", '"""', "\\\n",
             "b'x'", "f\"{x}\"", " ", "\x7f\x80\x9f\xa0"]


def gen_int(rng):
    r = rng.random()
    if r < 0.45:
        return rng.randint(-10, 10)
    if r < 0.75:
        k = rng.choice((7, 8, 15, 16, 31, 32, 53, 63, 64, 100, 200))
        return rng.choice((1, -1)) * (2 ** k) + rng.choice((-1, 0, 1))
    if r < 0.9:
        return rng.choice((1, -1)) * rng.getrandbits(rng.choice((20, 64, 130, 256)))
    return rng.choice((1, -1)) * 10 ** rng.randint(1, 40)


def gen_float(rng):
    r = rng.random()
    if r < 0.35:
        return rng.choice(SPECIAL_FLOATS)
    if r < 0.60:  # any bit pattern: 17-digit values, huge/tiny exponents, NaN payloads
        return struct.unpack("<d", struct.pack("<Q", rng.getrandbits(64)))[0]
    if r < 0.70:  # subnormals
        bits = rng.getrandbits(52) | (rng.getrandbits(1) << 63)
        return struct.unpack("<d", struct.pack("<Q", bits))[0]
    if r < 0.85:
        return rng.uniform(-1000, 1000)
    if r < 0.93:
        return float(rng.randint(-10 ** 6, 10 ** 6)) * 10.0 ** rng.randint(-30, 30)
    return rng.random()


def gen_str(rng):
    r = rng.random()
    if r < 0.25:
        return rng.choice(STR_FIXED)
    if r < 0.35:
        return "".join(rng.choice("abcdefg") for _ in range(rng.randint(1, 6)))
    return "".join(rng.choice(STR_CHARS) for _ in range(rng.randint(0, 12)))


def gen_bytes(rng):
    r = rng.random()
    if r < 0.15:
        return bytes(rng.choice((b"", b"'", b'"', b"\\", b"a'b\"c", b"\x00\xff", b"\\n", b"abc")))
    if r < 0.25:
        return bytes(rng.getrandbits(8) for _ in range(rng.randint(1, 8)))
    return bytes(rng.choice(BYTE_VALS) for _ in range(rng.randint(0, 10)))


# ------------------------------------------------------------------ IR utils

def kids(n):
    """Child nodes of an IR node, in build order."""
    t = n["t"]
    c = n.get("c")
    if not c:
        return []
    if t in MAP_TYPES:
        return [x for kv in c for x in kv]
    return list(c)


def walk(n):
    yield n
    for k in kids(n):
        yield from walk(k)


def ir_size(n):
    return sum(1 for _ in walk(n))


def ir_depth(n):
    ks = kids(n)
    if "c" not in n:
        return 0
    return 1 + max((ir_depth(k) for k in ks), default=0)


def ir_types(n):
    return {x["t"] for x in walk(n)}


def label_defs(n):
    """{label: defining node} (share nodes carry a label too, but refer)."""
    return {x["lbl"]: x for x in walk(n) if "lbl" in x and x["t"] != "share"}


def has_ref(n):
    return any(x["t"] == "ref" for x in walk(n))


def escaping_refs(n, depth=0):
    """True if some ref inside `n` points above `n` itself."""
    if n["t"] == "ref":
        return n["up"] > depth
    d2 = depth + (1 if "c" in n else 0)
    return any(escaping_refs(k, d2) for k in kids(n))


def map_nodes(n, f):
    """Copy of the IR with f applied bottom-up to every node (f returns a node)."""
    m = dict(n)
    c = n.get("c")
    if c is not None:
        if n["t"] in MAP_TYPES:
            m["c"] = [[map_nodes(k, f), map_nodes(v, f)] for k, v in c]
        else:
            m["c"] = [map_nodes(k, f) for k in c]
    return f(m)


def leaf_ir(v):
    """IR for a leaf Python value (used by generators)."""
    if v is None:
        return {"t": "none"}
    if isinstance(v, bool):
        return {"t": "bool", "v": v}
    if isinstance(v, int):
        return {"t": "int", "v": str(v)}
    if isinstance(v, float):
        return {"t": "float", "v": v.hex()}
    if isinstance(v, complex):
        return {"t": "complex", "re": v.real.hex(), "im": v.imag.hex()}
    if isinstance(v, str):
        return {"t": "str", "v": v}
    if isinstance(v, bytearray):
        return {"t": "bytearray", "v": bytes(v).hex()}
    if isinstance(v, bytes):
        return {"t": "bytes", "v": v.hex()}
    if isinstance(v, fractions.Fraction):
        return {"t": "fraction", "n": str(v.numerator), "d": str(v.denominator)}
    if isinstance(v, range):
        return {"t": "range", "a": [str(v.start), str(v.stop), str(v.step)]}
    raise TypeError(v)


# ------------------------------------------------------------------ generator

class Gen:
    """Recursive IR generator.  profile 'repr' = every type of property C27;
    profile 'model' = the model-representable types of C29."""

    LEAF_W = {
        "repr": [("none", 2), ("bool", 3), ("int", 8), ("float", 9), ("complex", 5),
                 ("str", 10), ("bytes", 6), ("bytearray", 2), ("keyword", 3),
                 ("fraction", 3), ("range", 3)],
        "model": [("none", 2), ("bool", 3), ("int", 8), ("float", 7), ("complex", 4),
                  ("str", 9), ("bytes", 5), ("keyword", 3)],
    }
    CONT_W = {
        "repr": [("list", 8), ("tuple", 7), ("dict", 7), ("set", 4), ("frozenset", 4),
                 ("deque", 3), ("odict", 3), ("counter", 3), ("ddict", 3),
                 ("chainmap", 3), ("slice", 3)],
        "model": [("list", 8), ("tuple", 7), ("dict", 6), ("set", 4)],
    }
    HASHABLE_CONT = {"tuple", "frozenset"}
    UNHASHABLE_LEAF = {"bytearray"}
    # containers whose direct slots can be patched after construction (needed
    # for a ref to an enclosing *immutable* container)
    PATCHABLE = {"list", "deque", "dict", "odict", "ddict", "counter"}
    IMMUTABLE = {"tuple", "frozenset", "slice"}

    def __init__(self, rng, profile="repr", max_depth=4, ref_p=0.0, share_p=0.08,
                 max_width=4, label_p=0.5, nan_in_sets=True):
        self.rng = rng
        self.profile = profile
        self.max_depth = max_depth
        self.ref_p = ref_p
        self.share_p = share_p
        self.max_width = max_width
        self.label_p = label_p
        self.nan_in_sets = nan_in_sets   # False: no NaN inside set/frozenset elements
        self.in_set = 0                  # (hash(NaN) is id-based: iteration order
        self.labels = []          # [(lbl, hashable_ok, has_nan)]   differs per build)
        self.next_lbl = 0
        self.stack = []           # types of the enclosing containers
        self.nrefs = 0

    # -- tables (overridable)
    def leaf_table(self, hashable):
        t = self.LEAF_W[self.profile]
        if hashable:
            t = [(k, w) for k, w in t if k not in self.UNHASHABLE_LEAF]
        return t

    def cont_table(self, hashable):
        t = self.CONT_W[self.profile]
        if hashable:
            t = [(k, w) for k, w in t if k in self.HASHABLE_CONT]
        return t

    def pick(self, table):
        tot = sum(w for _, w in table)
        r = self.rng.random() * tot
        for k, w in table:
            r -= w
            if r < 0:
                return k
        return table[-1][0]

    # -- entry
    def value(self, want=None):
        """A complete value.  want: None | a container type for the root."""
        self.stack = []
        if want:
            return self.finish(getattr(self, "gen_" + want)(0, False), False)
        return self.node(0, False, slot="root")

    def node(self, depth, hashable, slot="imm"):
        """slot: 'mut' = direct slot of a patchable container, 'imm' = other
        element slot, 'key' = hashable slot, 'root'."""
        rng = self.rng
        # self-reference
        if (self.ref_p and not hashable and self.stack and rng.random() < self.ref_p):
            ups = [u for u in range(1, len(self.stack) + 1)
                   if self.ref_target_ok(self.stack[-u], slot)]
            if ups:
                self.nrefs += 1
                return {"t": "ref", "up": rng.choice(ups)}
        # DAG sharing
        if self.labels and rng.random() < self.share_p:
            cands = [l for l, h, nn in self.labels if (h or not hashable)
                     and not (nn and self.in_set and not self.nan_in_sets)]
            if cands:
                return {"t": "share", "lbl": rng.choice(cands)}
        p_cont = 0.0 if depth >= self.max_depth else (0.75 if depth == 0 else 0.45)
        table = self.cont_table(hashable)
        if table and rng.random() < p_cont:
            t = self.pick(table)
            n = getattr(self, "gen_" + t)(depth, hashable)
        else:
            t = self.pick(self.leaf_table(hashable))
            n = getattr(self, "gen_" + t)(depth, hashable)
        return self.finish(n, hashable)

    def ref_target_ok(self, target_type, slot):
        if target_type in ("set", "frozenset"):
            return False
        if target_type in self.IMMUTABLE:
            return slot == "mut"
        return True

    def finish(self, n, hashable):
        is_cont = "c" in n
        if self.rng.random() < (self.label_p if is_cont else min(0.1, self.label_p)) and not escaping_refs(n):
            h = hashable or (not is_cont and n["t"] not in self.UNHASHABLE_LEAF)
            self.label(n, h)
        return n

    def label(self, n, hashable=False):
        """Give `n` a label so that later nodes can share the object built for it."""
        if "lbl" not in n:
            n["lbl"] = self.next_lbl
            self.next_lbl += 1
            self.labels.append((n["lbl"], hashable, self._nanny(n)))
        return n["lbl"]

    def _nanny(self, n):
        nn = {l for l, h, x in self.labels if x}
        for x in walk(n):
            if x["t"] == "float" and x["v"] == "nan":
                return True
            if x["t"] == "complex" and "nan" in (x["re"], x["im"]):
                return True
            if x["t"] == "share" and x["lbl"] in nn:
                return True
        return False

    def _float(self):
        f = gen_float(self.rng)
        if f != f and self.in_set and not self.nan_in_sets:
            return 1.5
        return f

    def width(self, depth):
        r = self.rng.random()
        if r < 0.12:
            return 0
        return self.rng.randint(1, max(1, self.max_width - (1 if depth >= 2 else 0)))

    # -- leaves
    def gen_none(self, d, h):
        return {"t": "none"}

    def gen_bool(self, d, h):
        return {"t": "bool", "v": self.rng.random() < 0.5}

    def gen_int(self, d, h):
        return leaf_ir(gen_int(self.rng))

    def gen_float(self, d, h):
        return leaf_ir(self._float())

    def gen_complex(self, d, h):
        return leaf_ir(complex(self._float(), self._float()))

    def gen_str(self, d, h):
        return leaf_ir(gen_str(self.rng))

    def gen_bytes(self, d, h):
        return leaf_ir(gen_bytes(self.rng))

    def gen_bytearray(self, d, h):
        return leaf_ir(bytearray(gen_bytes(self.rng)))

    def gen_keyword(self, d, h):
        return {"t": "keyword", "v": self.rng.choice(KEYWORD_NAMES)}

    def gen_fraction(self, d, h):
        num = gen_int(self.rng)
        den = abs(gen_int(self.rng)) or 1
        return leaf_ir(fractions.Fraction(num, den))

    def gen_range(self, d, h):
        rng = self.rng
        k = rng.random()
        if k < 0.3:
            r = range(rng.randint(-3, 12))
        elif k < 0.6:
            r = range(rng.randint(-5, 5), rng.randint(-5, 20))
        else:
            r = range(rng.randint(-5, 5), gen_int(rng), rng.choice((1, 2, -1, -3, 7, 2 ** 64)))
        return leaf_ir(r)

    # -- containers
    def _seq(self, t, d, h, slot):
        self.stack.append(t)
        c = [self.node(d + 1, h, slot) for _ in range(self.width(d))]
        self.stack.pop()
        return {"t": t, "c": c}

    def gen_list(self, d, h):
        return self._seq("list", d, False, "mut")

    def gen_tuple(self, d, h):
        return self._seq("tuple", d, h, "imm")

    def gen_set(self, d, h):
        self.in_set += 1
        try:
            return self._seq("set", d, True, "key")
        finally:
            self.in_set -= 1

    def gen_frozenset(self, d, h):
        self.in_set += 1
        try:
            return self._seq("frozenset", d, True, "key")
        finally:
            self.in_set -= 1

    def gen_deque(self, d, h):
        n = self._seq("deque", d, False, "mut")
        n["maxlen"] = (len(n["c"]) + self.rng.randint(0, 2)) if self.rng.random() < 0.25 else None
        return n

    def _map(self, t, d, valgen=None):
        self.stack.append(t)
        c = []
        for _ in range(self.width(d)):
            k = self.node(d + 1, True, "key")
            v = valgen() if valgen else self.node(d + 1, False, "mut")
            c.append([k, v])
        self.stack.pop()
        return {"t": t, "c": c}

    def gen_dict(self, d, h):
        return self._map("dict", d)

    def gen_odict(self, d, h):
        return self._map("odict", d)

    def gen_counter(self, d, h):
        rng = self.rng

        def count():
            if rng.random() < 0.85:
                return leaf_ir(rng.randint(-2, 9))
            return self.node(d + 1, False, "mut")
        return self._map("counter", d, count)

    def gen_ddict(self, d, h):
        n = self._map("ddict", d)
        n["f"] = self.rng.choice(list(FACTORIES) + [None, None])
        return n

    def gen_chainmap(self, d, h):
        self.stack.append("chainmap")
        c = []
        for _ in range(self.rng.randint(0, 3)):
            c.append(self.finish(self._map("dict", d + 1), False))
        self.stack.pop()
        return {"t": "chainmap", "c": c}

    def gen_slice(self, d, h):
        self.stack.append("slice")
        c = []
        for _ in range(3):
            if self.rng.random() < 0.6:
                c.append(self.rng.choice(({"t": "none"}, leaf_ir(self.rng.randint(-5, 9)))))
            else:
                c.append(self.node(d + 1, False, "imm"))
        self.stack.pop()
        return {"t": "slice", "c": c}


def gen_cyclic(rng, profile="repr", max_depth=4, **kw):
    """A value IR with at least one self-reference."""
    for _ in range(20):
        g = Gen(rng, profile, max_depth, ref_p=0.25, nan_in_sets=False, **kw)
        roots = ["list", "dict", "deque", "odict", "ddict", "counter", "chainmap", "tuple",
                 "slice"] if profile == "repr" else ["list", "dict", "tuple"]
        n = g.value(want=rng.choice(roots))
        if g.nrefs:
            return n
    # forced: a list containing itself
    return {"t": "list", "c": [leaf_ir(1), {"t": "ref", "up": 1}]}


# -------------------------------------------------------------------- builder

class _Hole:
    def __init__(self, frame):
        self.frame = frame


class Builder:
    """Builds Python objects from IR.  One Builder keeps its label table, so
    several IRs built by the same Builder can share objects.

    ref_hook(target_type) -> object   replaces every self-reference (used to
                                      build the acyclic 'marker' twin)
    ext = {type: fn(builder, node) -> object}   extra node types
    on_store(node, value, container, key)       called for every child stored in
                                                a list / deque / dict-like slot
    """

    def __init__(self, ref_hook=None, ext=None, on_store=None):
        self.stack = []
        self.labels = {}
        self.ref_hook = ref_hook
        self.ext = ext or {}
        self.on_store = on_store      # on_store(node, value, container, key) for every
                                      # child stored in a list/deque/dict-like slot

    def build(self, n):
        v = self._b(n)
        if isinstance(v, _Hole):
            raise ValueError("unresolved reference at root")
        return v

    # frames -----------------------------------------------------------------
    def push(self, t, obj=None):
        fr = {"t": t, "obj": obj, "patches": []}
        self.stack.append(fr)
        return fr

    def pop(self, fr, obj):
        assert self.stack.pop() is fr
        fr["obj"] = obj
        for hole, cont, key in fr["patches"]:
            # (a later pair with an equal key may have overwritten the slot)
            if cont[key] is hole:
                cont[key] = obj

    def put(self, v, cont, key, node=None):
        """v (built from IR `node`) was stored at cont[key]; if it is a hole,
        fill it in later."""
        if self.on_store is not None and node is not None:
            self.on_store(node, v, cont, key)
        if isinstance(v, _Hole):
            v.frame["patches"].append((v, cont, key))
            return True
        return False

    # ------------------------------------------------------------------------
    def _b(self, n):
        t = n["t"]
        f = self.ext.get(t) or getattr(self, "b_" + t)
        v = f(self, n) if t in self.ext else f(n)
        if "lbl" in n and t != "share" and not isinstance(v, _Hole):
            self.labels[n["lbl"]] = v
        return v

    def b_ref(self, n):
        fr = self.stack[-n["up"]]
        if self.ref_hook is not None:
            return self.ref_hook(fr["t"])
        if fr["obj"] is not None:
            return fr["obj"]
        return _Hole(fr)

    def b_share(self, n):
        return self.labels[n["lbl"]]

    def b_none(self, n):
        return None

    def b_bool(self, n):
        return bool(n["v"])

    def b_int(self, n):
        return int(n["v"])

    def b_float(self, n):
        return float.fromhex(n["v"])

    def b_complex(self, n):
        return complex(float.fromhex(n["re"]), float.fromhex(n["im"]))

    def b_str(self, n):
        return n["v"]

    def b_bytes(self, n):
        return bytes.fromhex(n["v"])

    def b_bytearray(self, n):
        return bytearray(bytes.fromhex(n["v"]))

    def b_keyword(self, n):
        from hy.models import Keyword
        return Keyword(n["v"])

    def b_fraction(self, n):
        return fractions.Fraction(int(n["n"]), int(n["d"]))

    def b_range(self, n):
        return range(*map(int, n["a"]))

    def b_list(self, n):
        obj = []
        fr = self.push("list", obj)
        for c in n["c"]:
            v = self._b(c)
            i = len(obj)
            obj.append(v)
            self.put(v, obj, i, c)
        self.pop(fr, obj)
        return obj

    def b_deque(self, n):
        obj = collections.deque(maxlen=n.get("maxlen"))
        fr = self.push("deque", obj)
        for c in n["c"]:
            v = self._b(c)
            i = len(obj)
            obj.append(v)
            self.put(v, obj, i, c)
        self.pop(fr, obj)
        return obj

    def b_set(self, n):
        obj = set()
        fr = self.push("set", obj)
        for c in n["c"]:
            obj.add(self._b(c))
        self.pop(fr, obj)
        return obj

    def _imm(self, n, make):
        fr = self.push(n["t"])
        vals = [self._b(c) for c in n["c"]]
        if any(isinstance(v, _Hole) for v in vals):
            raise ValueError("reference to a pending container from an immutable slot")
        obj = make(vals)
        self.pop(fr, obj)
        return obj

    def b_tuple(self, n):
        return self._imm(n, tuple)

    def b_frozenset(self, n):
        return self._imm(n, frozenset)

    def b_slice(self, n):
        return self._imm(n, lambda v: slice(*v))

    def _map(self, n, obj):
        fr = self.push(n["t"], obj)
        for kn, vn in n["c"]:
            k = self._b(kn)
            v = self._b(vn)
            dict.__setitem__(obj, k, v)
            self.put(v, obj, k, vn)
        self.pop(fr, obj)
        return obj

    def b_dict(self, n):
        return self._map(n, {})

    def b_odict(self, n):
        obj = collections.OrderedDict()
        fr = self.push("odict", obj)
        for kn, vn in n["c"]:
            k = self._b(kn)
            v = self._b(vn)
            obj[k] = v
            self.put(v, obj, k, vn)
        self.pop(fr, obj)
        return obj

    def b_counter(self, n):
        return self._map(n, collections.Counter())

    def b_ddict(self, n):
        f = n.get("f")
        return self._map(n, collections.defaultdict(FACTORIES[f] if f else None))

    def b_chainmap(self, n):
        obj = collections.ChainMap()
        fr = self.push("chainmap", obj)
        maps = [self._b(c) for c in n["c"]]
        if maps:
            obj.maps = maps
        self.pop(fr, obj)
        return obj


def build(n, **kw):
    return Builder(**kw).build(n)


# ---------------------------------------------- NaN-aware, typed deep equality

def _ck(v):
    """Canonical hashable key for a hashable value: typed, NaN == NaN."""
    if isinstance(v, float):
        return ("float", "nan") if v != v else ("float", v)
    if isinstance(v, complex):
        return ("complex", _ck(v.real), _ck(v.imag))
    if isinstance(v, tuple):
        return ("tuple", tuple(_ck(x) for x in v))
    if isinstance(v, frozenset):
        return ("frozenset", frozenset(_ck(x) for x in v))
    if isinstance(v, slice):
        return ("slice", _ck(v.start), _ck(v.stop), _ck(v.step))
    return (type(v).__name__, v)


def deep_same(a, b, path="", _depth=0):
    """None if `b` equals `a` with the same type at every node (NaN equal to
    NaN, sign of zero not gating, dict/set equality as Python's), else a
    description of the first difference."""
    if type(a) is not type(b):
        return f"{path}: type {type(a).__name__} != {type(b).__name__}"
    if _depth > 60:
        return None
    if isinstance(a, float):
        if (a != a and b != b) or a == b:
            return None
        return f"{path}: {a!r} != {b!r}"
    if isinstance(a, complex):
        return (deep_same(a.real, b.real, path + ".real", _depth + 1)
                or deep_same(a.imag, b.imag, path + ".imag", _depth + 1))
    if isinstance(a, (list, tuple, collections.deque)):
        if len(a) != len(b):
            return f"{path}: len {len(a)} != {len(b)}"
        for i, (x, y) in enumerate(zip(a, b)):
            d = deep_same(x, y, f"{path}[{i}]", _depth + 1)
            if d:
                return d
        return None
    if isinstance(a, collections.ChainMap):
        if deep_same(a.maps, b.maps, path + ".maps", _depth + 1) is None:
            return None
        return deep_same(dict(a), dict(b), path + ".flat", _depth + 1)
    if isinstance(a, dict):
        if len(a) != len(b):
            return f"{path}: dict len {len(a)} != {len(b)}"
        if isinstance(a, collections.OrderedDict):
            return deep_same(list(a.items()), list(b.items()), path + ".items", _depth + 1)
        kb = {_ck(k): k for k in b}
        if len(kb) == len(b):
            for k, v in a.items():
                ck = _ck(k)
                if ck not in kb:
                    return f"{path}: key {k!r} missing"
                d = deep_same(v, b[kb[ck]], f"{path}[{k!r}]", _depth + 1)
                if d:
                    return d
            return None
        # several NaN-like keys that a canonical key cannot tell apart: look
        # for a bijection between the items
        items = list(b.items())
        used = [False] * len(items)
        for k, v in a.items():
            ck = _ck(k)
            for j, (k2, v2) in enumerate(items):
                if not used[j] and _ck(k2) == ck and deep_same(v, v2, "", _depth + 1) is None:
                    used[j] = True
                    break
            else:
                return f"{path}: no item matching {k!r}: {v!r:.80}"
        return None
    if isinstance(a, (set, frozenset)):
        if (len(a) != len(b) or collections.Counter(_ck(x) for x in a)
                != collections.Counter(_ck(x) for x in b)):
            return f"{path}: {a!r} != {b!r}"
        return None
    if isinstance(a, slice):
        return deep_same((a.start, a.stop, a.step), (b.start, b.stop, b.step),
                         path + ".slice", _depth + 1)
    try:
        eq = (a == b)
    except Exception as e:  # pragma: no cover
        return f"{path}: == raised {e!r}"
    return None if eq else f"{path}: {a!r} != {b!r}"


def sign_of_zero_differs(a, b, _depth=0):
    """Some float zero changed sign between a and b (positionally compared;
    set elements are not examined).  Recorded, never gating (DESIGN 6.6)."""
    if type(a) is not type(b) or _depth > 60:
        return False
    if isinstance(a, float):
        return a == 0 and b == 0 and math.copysign(1, a) != math.copysign(1, b)
    if isinstance(a, complex):
        return (sign_of_zero_differs(a.real, b.real) or sign_of_zero_differs(a.imag, b.imag))
    if isinstance(a, (list, tuple, collections.deque)):
        return any(sign_of_zero_differs(x, y, _depth + 1) for x, y in zip(a, b))
    if isinstance(a, collections.ChainMap):
        return sign_of_zero_differs(a.maps, b.maps, _depth + 1)
    if isinstance(a, dict):
        return any(sign_of_zero_differs(x, y, _depth + 1)
                   for x, y in zip(list(a.items()), list(b.items())))
    if isinstance(a, slice):
        return sign_of_zero_differs((a.start, a.stop, a.step), (b.start, b.stop, b.step), _depth + 1)
    return False


# ------------------------------------------------------------- entry monitor

class EventBound(BaseException):
    """Raised (from the monitoring callback, into the monitored code) when the
    logical bound on function entries is exceeded."""


class EntryMonitor:
    """Counts entries of one function (sys.monitoring PY_START on its code
    object) and optionally enforces a bound on them.  `ok` is False when the
    function could not be found (the monitor is then skipped, not failed)."""

    def __init__(self, modname, funcname, tool=3, name="hv-entries"):
        self.count = 0
        self.limit = None
        self.ok = False
        self.code = None
        try:
            import importlib
            f = getattr(importlib.import_module(modname), funcname)
            code = f.__code__
            mon = sys.monitoring
            try:
                mon.use_tool_id(tool, name)
            except ValueError:
                pass
            mon.register_callback(tool, mon.events.PY_START, self._start)
            mon.set_local_events(tool, code, mon.events.PY_START)
            self.code = code
            self.ok = True
        except Exception:
            self.ok = False

    def _start(self, code, offset):
        if code is not self.code:
            return
        self.count += 1
        if self.limit is not None and self.count > self.limit:
            self.limit = None
            raise EventBound(self.count)


# -------------------------------------------------------------- fresh process

def fresh_process(modname, arg, timeout=300):
    """`module.fresh_eval(arg)` computed in a brand-new interpreter process
    (exec, nothing shared with the caller).  Process creation is expensive, so
    the checks use this to *confirm* a suspected difference and on a sample."""
    out = subprocess.run(
        [sys.executable, "-m", "hv.gen_values", "--fresh-one", modname],
        input=json.dumps(arg).encode(), capture_output=True, env=dict(os.environ),
        cwd=os.path.dirname(os.path.dirname(os.path.abspath(__file__))), timeout=timeout)
    try:
        return json.loads(out.stdout.decode().strip().splitlines()[-1])
    except Exception:
        return {"harness_error": "fresh process gave no result: " + out.stderr.decode()[-400:]}


def _one(modname):
    import importlib
    import hy
    repo = os.environ.get("VERIF_REPO", "/repo")
    if not os.path.abspath(hy.__file__).startswith(os.path.abspath(repo) + os.sep):
        raise SystemExit(f"hy imported from {hy.__file__}, not {repo}")
    mod = importlib.import_module(modname)
    arg = json.loads(sys.stdin.buffer.read())
    try:
        res = mod.fresh_eval(arg)
    except BaseException as e:
        res = {"harness_error": f"{type(e).__name__}: {e}"}
    sys.stdout.write("\n" + json.dumps(res) + "\n")


if __name__ == "__main__":
    if len(sys.argv) == 3 and sys.argv[1] == "--fresh-one":
        _one(sys.argv[2])
