"""Generators and oracles for C40 (the REPL).

* histories of REPL inputs with known outcomes (`gen_history`),
* multi-line evaluating programs with known form boundaries (`gen_program`),
* quoted syntax-IR / corpus texts (`quote_forms`),
* the slot oracle for `*1 *2 *3` (`slots_consistent`) and the model of the
  anticipated defect used for attribution (`stale_shift_model`),
* drivers: an in-process `hy.REPL` fed with `push(line)` under captured
  stdout/stderr (`drive`), and a real `hy -i` child on a pipe (`drive_subprocess`).

Nothing here edits hy; the REPL is observed at its API: the value `push`
returns, the text it prints, its namespace (`*1 *2 *3 *e`) and the exception
objects it hands to `sys.excepthook`.
"""
import ast
import contextlib
import io
import itertools
import os
import subprocess
import sys

# ---------------------------------------------------------------------------
# histories


def _lit(v):
    return repr(v)


def _value_forms(n, rng):
    """[(hy text, python value)] - every value contains the unique number n."""
    return [
        (f"{n}", n),
        (f'"s{n}"', f"s{n}"),
        (f"[{n} 1]", [n, 1]),
        (f"(+ {n - 7} 7)", n),
        (f'#({n} "a")', (n, "a")),
        (f'{{"k" {n}}}', {"k": n}),
        (f"(do (setv v{n} {n}) v{n})", n),
        (f"{n}.5", n + 0.5),
        (f"(str {n})", str(n)),
        (f"(lfor x [1 2] (+ x {n}))", [n + 1, n + 2]),
        (f"(if True {n} 0)", n),
        (f"(let [y {n}] [y y])", [n, n]),
        (f'f"f{{(+ {n} 0)}}"', f"f{n}"),
        (f"(setv a{n} 0) {n}", n),                       # two forms, the last one counts
        (f"(try (/ 1 0) (except [ZeroDivisionError] {n}))", n),   # a *caught* exception
        (f"(- {n})", -n),
    ]


def _none_forms(n):
    """[(hy text, printed text)]"""
    return [
        (f"(setv n{n} {n})", ""),
        (f'(print "p{n}")', f"p{n}\n"),
        ("None", ""),
        (f"(defn f{n} [] {n})", ""),
        ("(import math)", ""),
        (f"(when False {n})", ""),
        (f"(defclass K{n} [])", ""),
        (f"{n} None", ""),
        (f"(for [i{n} [1]] i{n})", ""),
    ]


def _runtime_failures(n):
    """[(hy text, exception type name, printed text, token the exception's repr must carry or None)]"""
    return [
        (f"(/ {n} 0)", "ZeroDivisionError", "", None),
        (f'(raise (ValueError "r{n}"))', "ValueError", "", f"r{n}"),
        (f"undefined-{n}", "NameError", "", f"undefined_{n}"),
        (f'(do (print "pre{n}") (raise (KeyError {n})))', "KeyError", f"pre{n}\n", f"{n}"),
        (f"(get [1] {n})", "IndexError", "", None),
        (f"(setv [ua{n} ub{n}] [{n}])", "ValueError", "", None),
        (f"(import nomod{n})", "ModuleNotFoundError", "", f"nomod{n}"),
        (f"({n} 1)", "TypeError", "", None),
        (f"{n} (/ {n} 0)", "ZeroDivisionError", "", None),
    ]


def _compile_failures(n):
    """Failing at compile time: macro errors and syntax errors in special forms.
    [(hy text, token the exception's repr must carry or None)]"""
    return [
        (f"(setv {n})", None), (f"(badmac {n})", f"{n}"), (f"(let [x{n}] {n})", None),
        (f"(require nomod{n})", f"nomod{n}"), (f"(fn {n})", None), (f"(defn {n} [])", None),
        (f"(for [x{n}] {n})", None), (f"(hy.R.nomod{n}.foo 1)", f"nomod{n}"), (f"(if)  ; {n}", None),
        (f"(do (badmac {n}))", f"{n}"), (f"(import {n})", None), (f"(setv x{n} 1 y{n})", None),
    ]


def _read_failures(n):
    return [f"{n} )", f"({n} ]", f") ({n}", f"[{n} )", f"}} {n}", f"(foo {n}))"]


PREAMBLE = [
    '(defmacro badmac [n] (raise (ValueError f"mac{n}")))',
    '(defclass BadRepr [] (defn __init__ [self n] (setv self.n n)) '
    '(defn __repr__ [self] (raise (RuntimeError f"repr{self.n}"))))',
]

def _split_lines(text, rng):
    """Split an input text into 2-3 physical lines at whitespace/bracket boundaries
    (never inside a string literal)."""
    cuts = []
    instr = False
    depth = 0
    for i, ch in enumerate(text):
        if ch == '"' and (i == 0 or text[i - 1] != "\\"):
            instr = not instr
        if instr:
            continue
        if ch == ";":
            break
        if ch in "([{":
            depth += 1
        elif ch in ")]}":
            depth -= 1
        # only inside an open bracket: the lines before the cut are then an incomplete input
        if ch == " " and depth > 0 and 0 < i < len(text) - 1:
            cuts.append(i)
    if not cuts:
        return [text]
    k = min(len(cuts), rng.choice([1, 1, 2]))
    chosen = sorted(rng.sample(cuts, k))
    out, prev = [], 0
    for c in chosen:
        out.append(text[prev:c])
        prev = c + 1
    out.append(text[prev:])
    if rng.random() < 0.3:
        out.insert(1, "")                     # a blank line inside an open form
    if rng.random() < 0.2:
        out.insert(1, "  ; comment inside")
    return out


def gen_history(rng, length, probes=False, allow_p=True):
    """A list of inputs: {"lines": [...], "kind": V|N|R|C|S|E|P, "val": python literal text,
    "out": text the input itself prints, "exc": type name or None, "tok": unique token}."""
    base = rng.randrange(1000, 8000) * 10
    hist = []
    for p in PREAMBLE:
        hist.append({"lines": [p], "kind": "N", "val": None, "out": "", "exc": None, "tok": None, "pre": True})
    kinds = ["V"] * 8 + ["N"] * 3 + ["R"] * 3 + ["C"] * 2 + ["S"] * 2 + ["E"] * 2 + (["P"] if allow_p else [])
    for i in range(length):
        n = base + i * 3 + 11
        kind = rng.choice(kinds)
        # make sure the interesting pattern (success, failure, success) is frequent
        if i and hist[-1]["kind"] == "V" and rng.random() < 0.35:
            kind = rng.choice(["R", "C", "S"])
        inp = {"kind": kind, "val": None, "out": "", "exc": None, "tok": str(n), "etok": None}
        if kind == "V":
            text, val = rng.choice(_value_forms(n, rng))
            inp["val"] = _lit(val)
        elif kind == "N":
            text, inp["out"] = rng.choice(_none_forms(n))
        elif kind == "R":
            text, inp["exc"], inp["out"], inp["etok"] = rng.choice(_runtime_failures(n))
        elif kind == "C":
            text, inp["etok"] = rng.choice(_compile_failures(n))
        elif kind == "S":
            text = rng.choice(_read_failures(n))
        elif kind == "E":
            text = rng.choice(["", "   ", f"; comment {n}", f"#_ (discarded {n})"])
        else:
            text = f"(BadRepr {n})"
        multi = kind != "E" and rng.random() < 0.3
        inp["lines"] = _split_lines(text, rng) if multi else [text]
        hist.append(inp)
        if probes and rng.random() < 0.35:
            hist.append(probe_input())
    if probes:
        hist.append(probe_input())
    return hist


PROBE = ('(do (print "@@S" (repr [*1 *2 *3]) "S@@") (print "@@E" (let [e (.get (globals) (hy.mangle "*e"))] '
         '(if (is e None) "None" (repr [(. (type e) __name__) (repr e)]))) "E@@"))')


def probe_input():
    return {"lines": [PROBE], "kind": "N", "val": None, "out": None, "exc": None, "tok": None, "probe": True}


def outcome(inp):
    """What the input contributes to the *k history: ("val", v) | ("none",) | ("fail",) |
    ("empty",) | ("pfail", n)."""
    k = inp["kind"]
    if k == "V":
        return ("val", ast.literal_eval(inp["val"]))
    if k == "N":
        return ("none",)
    if k in ("R", "C", "S"):
        return ("fail",)
    if k == "E":
        return ("empty",)
    return ("pfail", int(inp["tok"]))


def same_value(a, b):
    return type(a) is type(b) and a == b


def _is_pfail_obj(x, n):
    return type(x).__name__ == "BadRepr" and getattr(x, "n", None) == n


def slots_consistent(slots, outs_newest_first):
    """The statement's reading of `*1 *2 *3` (DESIGN C40): walking the inputs from the newest
    to the oldest, every successful input occupies the next slot with its value (None for a
    None result); a failed or empty input may occupy the next slot as None or be skipped; an
    input whose value was computed but could not be printed may do either or hold its value.
    Slots older than the whole history must not hold a value of the history."""
    outs = outs_newest_first
    vals = [o[1] for o in outs if o[0] == "val"]

    def rec(k, j):
        if k == len(slots):
            return True
        if j == len(outs):
            return all(not any(same_value(slots[m], v) for v in vals) and not
                       type(slots[m]).__name__ == "BadRepr" for m in range(k, len(slots)))
        o = outs[j]
        if o[0] == "val":
            return same_value(slots[k], o[1]) and rec(k + 1, j + 1)
        if o[0] == "none":
            return slots[k] is None and rec(k + 1, j + 1)
        if o[0] in ("fail", "empty"):
            return (slots[k] is None and rec(k + 1, j + 1)) or rec(k, j + 1)
        if o[0] == "pfail":
            return ((slots[k] is None or _is_pfail_obj(slots[k], o[1])) and rec(k + 1, j + 1)) or rec(k, j + 1)
        raise ValueError(o)

    return rec(0, 0)


def stale_shift_model(outs_oldest_first):
    """Slots predicted by the anticipated defect: every finished input shifts `last_value`,
    and a failed input leaves `last_value` at the previous input's value.  Values are
    ("val", v) / None / ("pfail", n) descriptors."""
    last = None
    slots = [None, None, None]
    for o in outs_oldest_first:
        if o[0] == "val":
            last = o
        elif o[0] in ("none", "empty"):
            last = None
        elif o[0] == "pfail":
            last = o
        # "fail": last unchanged
        slots = [last] + slots[:2]
    return slots


def matches_descr(x, d):
    if d is None:
        return x is None
    if d[0] == "val":
        return same_value(x, d[1])
    return _is_pfail_obj(x, d[1])


# ---------------------------------------------------------------------------
# drivers

_serial = itertools.count()

# environment variables that change how the REPL / the interpreter behaves; the checks' sessions run
# without them whatever the caller's environment holds
_ENV_DROP = ("HYSTARTUP", "PYTHONSTARTUP", "PYTHONWARNINGS", "PYTHONOPTIMIZE", "PYTHONINSPECT", "PYTHONDEBUG",
             "PYTHONVERBOSE", "PYTHONBREAKPOINT", "PYTHONDEVMODE", "PYTHONSAFEPATH")


def _drop(name):
    return name in _ENV_DROP or (name.startswith("HY_") and name != "HY_HISTORY") or name == "HYLANG_SPY"


@contextlib.contextmanager
def clean_session():
    """Run a case with startup files / spy / inherited warning filters out of the picture:
    os.environ without HYSTARTUP, HY_*, PYTHONWARNINGS ... and the warning filters reset to
    "default" (an inherited -W error must not turn a SyntaxWarning into a compile error)."""
    import warnings
    saved = {k: v for k, v in os.environ.items() if _drop(k)}
    for k in saved:
        del os.environ[k]
    try:
        with warnings.catch_warnings():
            warnings.simplefilter("default")
            yield
    finally:
        os.environ.update(saved)


def output_function(name):
    import hy
    return hy.repr if name == "hy.repr" else repr


def drive(input_lines, output_fn="hy.repr"):
    """Feed groups of lines to a fresh in-process hy.REPL.
    input_lines: list of lists of lines.  Returns one record per group:
    {"more": [flag per line], "out": stdout text, "err": stderr text, "slots": [*1,*2,*3],
     "e": *e or MISSING, "hooked": [exception objects handed to sys.excepthook]}"""
    import hy
    from hy.repl import REPL
    from hy.reader.mangling import mangle
    name = "hvrepl_%d_%d" % (os.getpid(), next(_serial))
    repl = REPL(locals={"__name__": name}, output_fn=None if output_fn == "hy.repr" else output_fn)
    syms = [mangle(f"*{i}") for i in (1, 2, 3)]
    esym = mangle("*e")
    recs = []
    old_hook = sys.excepthook
    hooked = []

    def hook(t, v, tb):
        hooked.append(v)
        sys.stderr.write(f"{getattr(t, '__name__', t)}: {v}\n")

    sys.excepthook = hook
    try:
        for lines in input_lines:
            del hooked[:]
            o, e = io.StringIO(), io.StringIO()
            flags = []
            with contextlib.redirect_stdout(o), contextlib.redirect_stderr(e):
                for ln in lines:
                    flags.append(bool(repl.push(ln)))
            recs.append({"more": flags, "out": o.getvalue(), "err": e.getvalue(),
                         "slots": [repl.locals.get(s, MISSING) for s in syms],
                         "e": repl.locals.get(esym, MISSING), "hooked": list(hooked)})
    finally:
        sys.excepthook = old_hook
        sys.modules.pop(name, None)
    return recs, repl


class _Missing:
    def __repr__(self):
        return "<unset>"


MISSING = _Missing()


def hy_script():
    return os.path.join(os.path.dirname(sys.executable), "hy")


def drive_subprocess(all_lines, output_fn="hy.repr", timeout=25):
    """Run a real `hy -i` REPL child with the lines on its standard input (a pipe).
    `hy` starts the REPL on a non-tty stdin only with -i; `-c ""` gives it nothing to run first.
    Returns (rc, stdout, stderr); rc is None when the child did not finish within `timeout`
    seconds (well below the per-case alarm, so that a hung child is a skipped sub-check)."""
    env = {k: v for k, v in os.environ.items() if not _drop(k)}
    env["PYTHONIOENCODING"] = "utf-8"
    import tempfile
    scratch = os.environ.get("VERIF_SCRATCH") or tempfile.gettempdir()
    # the child must not read or write the user's ~/.hy-history
    env["HY_HISTORY"] = os.path.join(scratch, "hvc40-history-%d" % os.getpid())
    cmd = [hy_script(), "-i", "--repl-output-fn", "repr" if output_fn == "repr" else "hy.repr", "-c", ""]
    try:
        p = subprocess.run(cmd, input="".join(l + "\n" for l in all_lines), capture_output=True, text=True,
                           encoding="utf-8", errors="backslashreplace", env=env, timeout=timeout,
                           cwd=scratch)
    except subprocess.TimeoutExpired:
        return None, "", "<timeout>"
    finally:
        with contextlib.suppress(OSError):
            os.remove(env["HY_HISTORY"])
    return p.returncode, p.stdout, p.stderr


# ---------------------------------------------------------------------------
# multi-line evaluating programs (workload 1b)

PROGRAM_GROUPS = [
    ["(setv a$1 $2)", "(+ a$1 1)"],
    ['(defn f$1 [x] (if (> x 0) (* x 2) "neg$1"))', "(f$1 $2)", "(f$1 -1)"],
    ['(print "p$1" $2)'],
    ['[(+ 1 $2) "s$1" #(1 2)]'],
    ["(lfor x (range 3) (+ x $2))"],
    ["(let [y $2] (setv z$1 y) None)", "z$1"],
    ['f"v{(+ 1 $2)}!"'],
    ['"line1-$1\nline2 ) ( ;"'],
    ["(defmacro m$1 [x] `(+ ~x $2))", "(m$1 1)"],
    ["(defclass C$1 [] (setv v $2))", "(. C$1 v)"],
    ["'(a$1 b [c $2])"],
    ["(do (setv q$1 [1 2]) (.append q$1 $2) q$1)"],
    ['{"k$1" $2}'], ["#{$2}"], ["None"], ["(when False $2)"], ["#_ (ignored $1)"],
    ["(import math)", "(math.floor $2.5)"],
    ["#[[text $1 ] with ( brackets]]"],
    ["(cond (< $2 0) 1 True [$2 (- $2)])"],
    ["(setv [p$1 q$1] [$2 2])", "#(p$1 q$1)"],
    ["(for [i (range 2)] (print i $2))"],
    ["$2"], ['"s$1"'], [":kw$1"], ["(. \"ab$1\" (upper))"], ["`(x ~(+ 1 $2) ~@[1 2])"],
    ['(with [o (open "/dev/null")] $2)'], ["(try (/ $2 0) (except [e ZeroDivisionError] (str e)))"],
]


def gen_program(rng):
    """-> list of top-level form texts (flat) in program order."""
    ngroups = rng.randint(2, 5)
    groups = []
    base = rng.randrange(100, 900) * 10
    for g in range(ngroups):
        tpl = rng.choice(PROGRAM_GROUPS)
        a, b = base + g, rng.randrange(10, 99)
        groups.append([t.replace("$1", str(a)).replace("$2", str(b)) for t in tpl])
    # interleave keeping each group's internal order
    out = []
    idx = [0] * len(groups)
    while True:
        live = [i for i, g in enumerate(groups) if idx[i] < len(g)]
        if not live:
            break
        i = rng.choice(live)
        out.append(groups[i][idx[i]])
        idx[i] += 1
    return out


def quote_forms(text, scan):
    """Wrap every model-producing top-level form of `text` in (quote ...), using the spans an
    independent scanner found.  Returns the new text."""
    out = text
    for start, end, produces in sorted(scan.forms, reverse=True):
        if produces:
            out = out[:start] + "(quote " + out[start:end + 1] + ")" + out[end + 1:]
    return out
