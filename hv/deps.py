"""Offline install of icontract/deal beside the repo's interpreter (git-ignored .deps)."""
import os
import subprocess
import sys

VERIF = os.path.dirname(os.path.dirname(os.path.abspath(__file__)))
DEPS = os.path.join(VERIF, ".deps")
WHEELS = "/opt/veriftools/wheels"


def ensure(verbose=False):
    if os.path.isdir(os.path.join(DEPS, "icontract")) and os.path.isdir(os.path.join(DEPS, "deal")):
        return True
    os.makedirs(DEPS, exist_ok=True)
    env = dict(os.environ, PIP_NO_INDEX="1", PIP_DISABLE_PIP_VERSION_CHECK="1")
    r = subprocess.run(
        ["/venv/bin/python", "-m", "pip", "install", "--quiet", "--no-index",
         "--find-links", WHEELS, "--target", DEPS, "icontract", "deal"],
        env=env, capture_output=True, text=True)
    if verbose or r.returncode != 0:
        sys.stderr.write(r.stdout + r.stderr)
    return r.returncode == 0
