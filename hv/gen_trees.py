"""Model-tree generators for the compiler-robustness properties C10 and C11.

IR (JSON-able, the *rendered case*): atoms {"t": "Sym"|"Kw"|"Int"|"Float"|
"Complex"|"Str"|"Bytes", "v": ...} and sequences {"t": "Expr"|"List"|"Tuple"|
"Set"|"Dict"|"FStr"|"FComp", "c": [...]} with "b" (brackets), "ts"
(is_tstring), "conv" where they apply. `build(ir)` assembles the model with the
*public* model constructors only (no `from_parser`), so every tree is one a
macro or `hy.eval` caller can really hand to the compiler; shapes the reader
cannot produce (odd Dict, FComponent with an odd conversion or outside an
f-string, empty Expression, bare unpacking heads ...) are included.

C10: `gen_direct` (random trees over every core macro head, ordinary calls,
method-call heads, `hy.R` heads, all atom and sequence kinds) and `gen_mutant`
(delete / duplicate / swap / retype / wrap one argument of a valid template of
every core macro, templates nested into each other). `sanitize` enforces the
sandbox: forms evaluated at compile time contain only whitelisted harmless
heads and unbound names (DESIGN 6.7).

C11: `gen_leafform` builds straight-line forms whose evaluated leaves are the
unique variables v0 v1 ..., with every slot filled by a plain operand, `#*`,
`#**`, `:k v` or a long unpacking form.
"""
import json
import unicodedata

SEQ = {"Expr": "Expression", "List": "List", "Tuple": "Tuple", "Set": "Set", "Dict": "Dict"}
SEQ_ALL = ("Expr", "List", "Tuple", "Set", "Dict", "FStr", "FComp")


class Unbuildable(Exception):
    pass


# ----------------------------------------------------------------- IR helpers

def S(v):
    return {"t": "Sym", "v": v}


def KW(v):
    return {"t": "Kw", "v": v}


def I(v):
    return {"t": "Int", "v": str(v)}


def STR(v, b=None):
    return {"t": "Str", "v": v, "b": b}


def E(*c):
    return {"t": "Expr", "c": list(c)}


def L(*c):
    return {"t": "List", "c": list(c)}


def seq(t, c, **kw):
    return dict({"t": t, "c": list(c)}, **kw)


def is_seq(j):
    return "c" in j


def head_of(j):
    """Head symbol name of an Expr, or None."""
    if j["t"] == "Expr" and j["c"] and j["c"][0]["t"] == "Sym":
        return j["c"][0]["v"]
    return None


def enc(m):
    import hy.models as M
    t = type(m)
    if t is M.Symbol:
        return {"t": "Sym", "v": str(m)}
    if t is M.Keyword:
        return {"t": "Kw", "v": m.name}
    if t is M.Integer:
        return {"t": "Int", "v": str(int(m))}
    if t is M.Float:
        return {"t": "Float", "v": float.__repr__(m)}
    if t is M.Complex:
        return {"t": "Complex", "v": [repr(m.real), repr(m.imag)]}
    if t is M.String:
        return {"t": "Str", "v": str(m), "b": m.brackets}
    if t is M.Bytes:
        return {"t": "Bytes", "v": bytes(m).decode("latin-1")}
    if t is M.FString:
        return {"t": "FStr", "c": [enc(x) for x in m], "b": m.brackets, "ts": bool(m.is_tstring)}
    if t is M.FComponent:
        return {"t": "FComp", "c": [enc(x) for x in m], "conv": m.conversion,
                "ts": bool(m.is_tstring)}
    for k, name in SEQ.items():
        if t is getattr(M, name):
            return {"t": k, "c": [enc(x) for x in m]}
    raise TypeError(f"not a model: {t.__name__}")


def build(j):
    """IR -> model, public constructors only. Raises Unbuildable if a
    constructor refuses the part (then the tree is not a model tree at all)."""
    import hy.models as M
    t = j["t"]
    try:
        if t == "Sym":
            return M.Symbol(j["v"])
        if t == "Kw":
            return M.Keyword(j["v"])
        if t == "Int":
            return M.Integer(int(j["v"]))
        if t == "Float":
            return M.Float(float(j["v"]))
        if t == "Complex":
            return M.Complex(float(j["v"][0]), float(j["v"][1]))
        if t == "Str":
            return M.String(j["v"], brackets=j.get("b"))
        if t == "Bytes":
            return M.Bytes(j["v"].encode("latin-1"))
        kids = [build(x) for x in j["c"]]
        if t == "FStr":
            return M.FString(kids, brackets=j.get("b"), is_tstring=bool(j.get("ts")))
        if t == "FComp":
            return M.FComponent(kids, conversion=j.get("conv"), is_tstring=bool(j.get("ts")))
        return getattr(M, SEQ[t])(kids)
    except Unbuildable:
        raise
    except (ValueError, TypeError) as e:
        raise Unbuildable(f"{t}: {e}")


def show(j, limit=400):
    """Human-readable rendering for witnesses (own printer; not hy.repr)."""
    t = j["t"]
    if t == "Sym":
        return j["v"]
    if t == "Kw":
        return ":" + j["v"]
    if t == "Int":
        return j["v"]
    if t == "Float":
        return {"nan": "NaN", "inf": "Inf", "-inf": "-Inf"}.get(j["v"], j["v"])
    if t == "Complex":
        return f"(complex {j['v'][0]} {j['v'][1]})"
    if t == "Str":
        return json.dumps(j["v"]) if j.get("b") is None else f"#[{j['b']}[{j['v']}]{j['b']}]"
    if t == "Bytes":
        return "b" + json.dumps(j["v"])
    kids = " ".join(show(c, limit) for c in j["c"])
    if t == "Expr":
        h = head_of(j)
        if len(j["c"]) == 2 and h in ("unpack-iterable", "unpack-mapping"):
            return ("#* " if h == "unpack-iterable" else "#** ") + show(j["c"][1], limit)
        if len(j["c"]) == 3 and h == "annotate":
            return "#^ " + show(j["c"][2], limit) + " " + show(j["c"][1], limit)
        return "(" + kids + ")"
    if t == "List":
        return "[" + kids + "]"
    if t == "Tuple":
        return "#(" + kids + ")"
    if t == "Set":
        return "#{" + kids + "}"
    if t == "Dict":
        return "{" + kids + "}"
    if t == "FStr":
        return "f<" + kids + ">"
    if t == "FComp":
        conv = f"!{j['conv']}" if j.get("conv") else ""
        return "{|" + kids + conv + "|}"
    return "?"


def walk(j, depth=0):
    yield j, depth
    for c in j.get("c", ()):
        yield from walk(c, depth + 1)


def ir_depth(j):
    return 1 + max((ir_depth(c) for c in j["c"]), default=0) if is_seq(j) else 0


def ir_size(j):
    return 1 + sum(ir_size(c) for c in j.get("c", ()))


def map_ir(j, f):
    """Bottom-up rewrite."""
    if is_seq(j):
        j = dict(j, c=[map_ir(c, f) for c in j["c"]])
    return f(j)


def map_top(j, f):
    """Top-down rewrite: f(node) -> node or None (None = keep and descend)."""
    r = f(j)
    if r is not None:
        return r
    if is_seq(j):
        return dict(j, c=[map_top(c, f) for c in j["c"]])
    return j


def limit_depth(j, maxd, filler=None):
    """Replace sub-trees that would make the tree deeper than `maxd` by an atom."""
    filler = filler or S("a")
    if not is_seq(j):
        return j
    if maxd <= 0:
        return filler
    return dict(j, c=[limit_depth(c, maxd - 1, filler) for c in j["c"]])


def limit_size(j, maxn, filler=None):
    """Drop trailing children until the tree has at most `maxn` nodes."""
    filler = filler or S("a")
    while ir_size(j) > maxn and is_seq(j) and j["c"]:
        big = max(range(len(j["c"])), key=lambda i: ir_size(j["c"][i]))
        kids = list(j["c"])
        if ir_size(kids[big]) > maxn // 2 and is_seq(kids[big]):
            kids[big] = limit_size(kids[big], maxn // 2, filler)
        else:
            kids.pop()
        j = dict(j, c=kids)
    return j


# ---------------------------------------------------------------------- pools

# Benign symbols: none is a builtin, none names an importable module (checked
# by `pool_selfcheck`), none is a name the sandbox forbids.
PLAIN_SYMS = ["a", "b", "c", "x", "y", "z", "f", "g", "h", "foo", "bar", "baz", "obj", "self",
              "cls", "T", "K", "V", "E", "e", "k", "v", "w", "m", "n", "args", "kw", "a-b",
              "is-ok?", "*v*", "_x"]
SPECIAL_SYMS = ["None", "True", "False", "...", ".", "..", "*", "/", "_"]
MACRO_NAME_SYMS = ["mac1", "mac2"]
SPECIAL_KWS = ["as", "if", "setv", "do", "async", "from", "chain", "tp", "macros", "readers"]
OTHER_KWS = ["k", "x", "y", "objects", "reader", "hy", "warn-on-core-shadow", "lazy", "else",
             "metaclass", "a-b", "", "**"]
STRINGS = ["", "s", "a b", "x", "k", "doc", "1.0", "a + 1", "x = 1\ny = x", "1 +", "{", "}", ">10",
           "a\x00b", "\ud800", "é", "hy.core.macros", "0.1"]
INTS = [0, 1, 2, 3, -1, 7, 10, 255, 2 ** 70, -(2 ** 63)]
FLOATS = ["1.5", "0.0", "-0.0", "inf", "-inf", "nan", "1e308", "5e-324"]
COMPLEXES = [["0.0", "1.0"], ["1.5", "-2.0"], ["nan", "inf"], ["-0.0", "-0.0"]]
BYTES = ["", "ab", "\x00\xff"]
CONVS = [None, None, None, "r", "s", "a", "z", "", "rr", "!"]
BRACKETS = [None, None, None, None, "", "x", "f-x"]
FORBIDDEN_NAMES = {"exit", "quit", "open", "input", "breakpoint", "help", "__import__", "eval",
                   "exec", "compile", "os", "sys", "subprocess", "print", "globals", "locals",
                   "getattr", "setattr", "delattr", "vars", "dir", "type", "object", "hy"}


def pool_selfcheck():
    """The sandbox premise: no pool symbol is a builtin or an importable module."""
    import builtins
    import importlib.util
    bad = []
    for s in PLAIN_SYMS + MACRO_NAME_SYMS + ["nomod", "nonexistent-mod", "sub"]:
        if s in FORBIDDEN_NAMES or hasattr(builtins, s.replace("-", "_")):
            bad.append(s)
            continue
        try:
            if importlib.util.find_spec(s.replace("-", "_")) is not None:
                bad.append(s)
        except (ImportError, ValueError):
            pass
    return bad


def fullwidth(s):
    """Compatibility spelling: ASCII letters, digits and _ as full-width forms, which NFKC
    (hence mangling) maps back to the ASCII name."""
    return "".join(chr(ord(c) + 0xFEE0) if (c.isascii() and (c.isalnum() or c == "_")) else c for c in s)


# spellings that only *become* None/True/False/_/a keyword/a pool name through mangling
COMPAT_SYMS = [fullwidth(x) for x in ("None", "True", "False", "_", "if", "class", "a", "x", "T", "self")] + \
              ["\U0001d40d\U0001d428\U0001d427\U0001d41e", "\U0001d413\U0001d42b\U0001d42e\U0001d41e",
               "\U0001d405\U0001d41a\U0001d425\U0001d42c\U0001d41e", "Tru\uff45", "N\uff4fne"]


def gen_sym(rng, special=0.3):
    r = rng.random()
    if r < 0.08:
        return S(rng.choice(COMPAT_SYMS))
    if r < special:
        return S(rng.choice(SPECIAL_SYMS))
    return S(rng.choice(PLAIN_SYMS))


def gen_kw(rng):
    if rng.random() < 0.05:
        return KW(fullwidth(rng.choice(["True", "None", "False", "k", "if"])))
    return KW(rng.choice(SPECIAL_KWS) if rng.random() < 0.6 else rng.choice(OTHER_KWS))


def gen_literal(rng):
    r = rng.random()
    if r < 0.35:
        return I(rng.choice(INTS))
    if r < 0.5:
        return {"t": "Float", "v": rng.choice(FLOATS)}
    if r < 0.58:
        return {"t": "Complex", "v": rng.choice(COMPLEXES)}
    if r < 0.9:
        return STR(rng.choice(STRINGS), rng.choice(BRACKETS))
    return {"t": "Bytes", "v": rng.choice(BYTES)}


def gen_atom(rng):
    r = rng.random()
    if r < 0.45:
        return gen_sym(rng)
    if r < 0.65:
        return gen_kw(rng)
    return gen_literal(rng)


# ------------------------------------------------------------------ templates

# Valid uses of every core macro, as Hy source (read once with the tree's
# reader; only the resulting models are used). Names come from the pools.
TEMPLATES = {
    "do": ["(do)", "(do a (f b) 3)"],
    "eval-and-compile": ["(eval-and-compile (setv a 1) (+ a 2))"],
    "eval-when-compile": ["(eval-when-compile (setv a 1) None)"],
    "do-mac": ["(do-mac (quote (setv a 1)))", "(do-mac `(+ 1 ~(+ 1 2)))"],
    "py": ['(py "a + 1")'],
    "pys": ['(pys "x = 1\\ny = x")'],
    "pragma": ["(pragma :warn-on-core-shadow False)", '(pragma :hy "1.0")'],
    "quote": ["(quote (a [b 1] :k #{c} {x 1} #(y) \"s\"))", "'f\"a{b !r :>10}\""],
    "quasiquote": ["`(a ~b ~@c [x ~(f e)] `(g ~~h))"],
    "unquote": ["(unquote a)"],
    "unquote-splice": ["(unquote-splice a)"],
    "not": ["(not a)"],
    "bnot": ["(bnot a)"],
    "and": ["(and a (f b) c)", "(and)"],
    "or": ["(or a (f b) c)", "(or (do (setv x 1) x) b)"],
    "=": ["(= a b c)", "(= a)"],
    "is": ["(is a None)"],
    "<": ["(< a b c)", "(< #* a)"],
    "<=": ["(<= a b)"],
    ">": ["(> a b)"],
    ">=": ["(>= a b c)"],
    "!=": ["(!= a b)"],
    "is-not": ["(is-not a None)"],
    "in": ["(in a b)"],
    "not-in": ["(not-in a b c)"],
    "chainc": ["(chainc a < b <= c)", "(chainc a in b)"],
    "+": ["(+ a b c)", "(+ #* a b)", "(+)", "(+ a)"],
    "-": ["(- a b)", "(- a)"],
    "*": ["(* a b c)", "(*)"],
    "/": ["(/ a b)", "(/ a)"],
    "//": ["(// a b)"],
    "%": ["(% a b)"],
    "**": ["(** a b c)"],
    "<<": ["(<< a b)"],
    ">>": ["(>> a b c)"],
    "|": ["(| a b)", "(|)"],
    "^": ["(^ a b)"],
    "&": ["(& a b)", "(& a)"],
    "@": ["(@ a b)"],
    "setv": ["(setv a 1 b (f a))", "(setv [a b] c)", "(setv #^ T a 1)", "(setv :chain [a b] 1)",
             "(setv (. a b) 1 (get c 0) 2)", "(setv #(a #* b) c)", "(setv)"],
    "setx": ["(setx a (f 1))"],
    "let": ["(let [a 1 b (f a)] (g a b))", "(let [[a b] c #^ T x 2] x)"],
    "annotate": ["(annotate a T)", "(annotate (. a b) (get T K))"],
    "deftype": ["(deftype T (| K V))", "(deftype :tp [K #^ T V #* a #** b] T (get K V))"],
    "global": ["(global a b)", "(global)"],
    "nonlocal": ["(fn [] (setv a 1) (fn [] (nonlocal a) (setv a 2)))", "(nonlocal a)"],
    "del": ["(del a (. b c) (get x 0))", "(del)"],
    "get": ["(get a 0 :k)"],
    ".": ["(. a b (c 1 :k 2 #* x #** y) [0] z)"],
    "cut": ["(cut a 1 2 3)", "(cut a 1)", "(cut a)"],
    "unpack-iterable": ["(f #* a)", "[#* a b]", "(unpack-iterable a)"],
    "unpack-mapping": ["(f #** a)", "{#** a \"k\" 1}", "(unpack-mapping a)"],
    "if": ["(if a (f b) (g c))", "(if (do (setv x 1) x) (do (setv y 1) y) z)"],
    "for": ["(for [a b] (f a))",
            "(for [a b :if (g a) c x :setv e 1 :do (f e)] (f a c) (else g))",
            "(for [[a b] c] (break) (continue))", "(for [:async a (f)] a)", "(for [])"],
    "lfor": ["(lfor a b :if (g a) :setv c (f a) :do (h) (+ a c))", "(lfor a b #* a)", "(lfor 1)",
             "(lfor :async a b a)"],
    "sfor": ["(sfor a b [x y] a (+ x y))"],
    "gfor": ["(gfor a b :if a (do (setv z a) z))"],
    "dfor": ["(dfor a b a (f a))", "(dfor a b #** a)", "(dfor a b :if a [a 1])"],
    "while": ["(while (f a) (g) (else h))", "(while True (break))",
              "(while (do (setv x 1) x) (continue))"],
    "break": ["(while a (break))", "(break)"],
    "continue": ["(for [a b] (continue))", "(continue)"],
    "with": ["(with [a (f) b (g)] (h a b))", "(with [(f)] 1)", "(with [:async a (f)] a)",
             "(with [_ (f) [a b] (g)] a)", "(with [a (f) :async b (g)] b)"],
    "match": ["(match a 1 (f) [b #* c] (g b) {\"k\" x #** e} x (foo :x 0 :y y) y (| 1 2) 3 (. T K) 4 _ 5)",
              "(match a [1 b] :as c :if (f c) c :k 1 None 2 #(x y) 3 (foo 1 z) z)",
              "(match a)", "(match a b\"x\" 1 1.5 2 (T.K w) w)"],
    "raise": ["(raise)", "(raise (f a))", "(raise a :from b)"],
    "try": ["(try (f) (except [E] 1) (except [e E] (g e)) (except [[E K]] 2) (except [] 3) (else 4) (finally (h)))",
            "(try (f) (except* [e E] 1))", "(try 1 (finally 2))", "(try 1)", "(try 1 (else 2))"],
    "except": ["(except [E] 1)"],
    "except*": ["(except* [E] 1)"],
    "else": ["(else 1)"],
    "finally": ["(finally 1)"],
    "fn": ["(fn [a b] (+ a b))", "(fn [a / b [c 1] * x [e 2] #** kw] a)", "(fn [#* args] args)",
           "(fn :async [a] (await a))", "(fn #^ T [#^ K a #^ V [b 1] #^ T #* c] a)",
           "(fn :tp [T] [a] a)", "(fn [] (setv x 1) (yield x) (return 2))", "(fn [])"],
    "defn": ["(defn f [a [b 2] #* c #** kw] \"doc\" (g a b))",
             "(defn :async [foo (bar 1)] :tp [T #* K #** V] #^ T f [#^ T a] a)", "(defn f [])",
             "(defn f [a] (defn g [] (nonlocal a) (setv a 1)) g)"],
    "defmacro": ["(defmacro mac1 [a #* b] `(do ~a ~@b))", "(do (defmacro mac1 [a] a) (mac1 (f 1)))",
                 "(defn f [] (defmacro mac2 [] 1) (mac2))", "(defmacro mac1 [a / [b 1]] \"doc\" b)"],
    "return": ["(fn [] (return 1))", "(return a)", "(return)"],
    "yield": ["(fn [] (yield a))", "(yield :from a)", "(yield)"],
    "await": ["(fn :async [] (await a))", "(await a)"],
    "defclass": ["(defclass foo)",
                 "(defclass [bar] :tp [T] foo [baz :metaclass m #** kw] \"doc\" (setv a 1) (defn f [self] a))",
                 "(defclass foo [] (defmacro mac1 [] 1) (mac1))"],
    "import": ["(import a)", "(import a.b :as c)", "(import a [b c :as x])", "(import a *)", "(import .a)",
               "(import .. [x])", "(import ..a.b [c])", "(import :lazy a)", "(import a b.c [x] ... *)",
               "(import)"],
    "require": ["(require hy.core.macros)", "(require hy.core.macros [when cond :as c])",
                "(require hy.core.macros :as m)", "(require hy.core.macros *)",
                "(require hy.core.macros :macros [when] :readers [x])", "(require nomod)",
                "(require hy.core.macros :readers *)", "(defn f [] (require hy.core.macros [when :as w]) (w 1 2))",
                "(require .nomod [a])", "(require)"],
    "assert": ["(assert a)", "(assert (f a) \"msg\")", "(assert (do (setv x 1) x) (do (setv y 2) y))"],
    "cond": ["(cond a 1 (f b) 2 True 3)", "(cond)"],
    "when": ["(when a (f) (g))"],
    "defreader": ["(defreader x (.parse-one-form &reader))", "(defreader x \"doc\" 1)"],
    "get-macro": ["(get-macro when)", "(get-macro :reader x)", "(get-macro \"cond\")"],
    "local-macros": ["(local-macros)", "(defn f [] (defmacro mac1 [] 1) (local-macros))"],
    "export": ["(export :objects [a b] :macros [mac1])", "(export [a])"],
    # non-macro heads
    "<call>": ["(f a 1 :k 2 #* x #** y)", "(f)", "((f a) b)", "(f : 1)"],
    "<method>": ["(.m obj a :k 1)", "(.a.b obj)", "(.m :k 1 obj)", "(.m #** kw obj 1)"],
    "<hy.R>": ["(hy.R.hy/core/macros.when a (f) (g))", "(hy.R.hy/core/macros.cond a 1 b 2)",
               "(hy.R.nomod.foo 1)", "(hy.R.hy/core/macros.nomacro 1)"],
    "<literal>": ["[a 1 \"s\" :k]", "#{a 1}", "#(a 1)", "{a 1 \"k\" [b]}", "f\"x{a}y{b !r :>{w}}\"",
                  "#[f-x[p{a}q]f-x]", "{}", "#()"],
}

_tpl_cache = {}
_untemplated = []


def templates():
    """{head: [ir, ...]} read with the tree's own reader (cached per process)."""
    if not _tpl_cache:
        import hy  # noqa: F401
        from hy.reader import read_many
        for head, texts in TEMPLATES.items():
            out = []
            for t in texts:
                forms = list(read_many(t, filename="<template>"))
                assert len(forms) == 1, t
                out.append(enc(forms[0]))
            _tpl_cache[head] = out
        for head in core_heads():
            if head not in _tpl_cache:
                if head.endswith("=") and head[:-1] in TEMPLATES:     # augmented assignment
                    _tpl_cache[head] = [E(S(head), S("a"), S("b")),
                                        E(S(head), E(S("."), S("a"), S("b")), S("c"), S("x")),
                                        E(S(head), E(S("get"), S("a"), I(0)), I(1))]
                else:
                    _tpl_cache[head] = [E(S(head), S("a"), S("b"))]
                    _untemplated.append(head)
    return _tpl_cache


_frag_cache = []


def fragments():
    """All compound sub-forms of all templates (realistic argument shapes)."""
    if not _frag_cache:
        seen = set()
        for head, irs in sorted(templates().items()):
            for ir in irs:
                for n, d in walk(ir):
                    if is_seq(n) and d >= 1:
                        key = json.dumps(n, sort_keys=True)
                        if key not in seen:
                            seen.add(key)
                            _frag_cache.append(n)
    return _frag_cache


def core_heads():
    """Unmangled names of every key of builtins._hy_macros (tree under test)."""
    import builtins
    import hy
    return sorted(hy.unmangle(k) for k in builtins._hy_macros)


def all_heads():
    hs = core_heads()
    return hs + [h for h in ("<call>", "<method>", "<hy.R>", "<literal>")]


# ---------------------------------------------------------- sandbox (sanitize)

CT_HEADS = {"eval-when-compile", "eval-and-compile", "do-mac", "defmacro", "pragma"}
# heads allowed inside forms that are evaluated at compile time
CT_SAFE_HEADS = {
    "do", "if", "when", "cond", "and", "or", "not", "bnot", "+", "-", "/", "//", "%", "&", "|", "^",
    "=", "!=", "<", "<=", ">", ">=", "is", "is-not", "in", "not-in", "chainc",
    "quote", "quasiquote", "unquote", "unquote-splice", "setv", "setx", "let", "fn", "defn",
    "lfor", "sfor", "dfor", "gfor", "for", "get", "cut", ".", "annotate", "unpack-iterable",
    "unpack-mapping", "return", "yield", "await", "raise", "assert", "break", "continue",
    "global", "nonlocal", "eval-when-compile", "eval-and-compile", "do-mac", "else",
}
CT_SAFE_SYMS = set(PLAIN_SYMS) | set(SPECIAL_SYMS)
REQUIRE_OK_SYMS = {"hy", "core", "macros", "nomod", "nonexistent-mod", "sub", "None", ".", "..", "...",
                   "*", "when", "cond", "export", "c", "m", "w", "x", "a", "b", "mac1", "_"}


def nk(s):
    """Names are compared the way mangling sees them: NFKC-normalised (a full-width
    `ｅｖａｌ-ｗｈｅｎ-ｃｏｍｐｉｌｅ` *is* eval-when-compile)."""
    return unicodedata.normalize("NFKC", s)


def _mangled(s):
    return nk(s).replace("-", "_")


_CT_HEADS_M = {_mangled(h) for h in CT_HEADS}
_CT_SAFE_HEADS_M = {_mangled(h) for h in CT_SAFE_HEADS}


def _ct_clean(j, filler, nested_ct=True):
    """Rewrite a form that will be *evaluated at compile time* so that it only
    contains whitelisted heads, unbound benign names and small literals.
    `nested_ct=False` (macro bodies) also forbids the compile-time evaluators
    themselves, because a macro parameter can carry an arbitrary outer form."""
    t = j["t"]
    if t == "Sym":
        return j if nk(j["v"]) in CT_SAFE_SYMS else filler
    if t == "Int":
        return j if abs(int(j["v"])) <= 16 else I(1)
    if not is_seq(j):
        return j
    kids = j["c"]
    if t == "Expr" and kids and kids[0]["t"] == "Sym":
        h = kids[0]
        hv = _mangled(h["v"])
        ok = hv in _CT_SAFE_HEADS_M and (nested_ct or hv not in _CT_HEADS_M)
        # else: a call of an unbound benign name (NameError at compile time)
        ok = ok or (nk(h["v"]) in CT_SAFE_SYMS and nk(h["v"]) != "*")
        if not ok:
            return filler
        return dict(j, c=[h] + [_ct_clean(c, filler, nested_ct) for c in kids[1:]])
    return dict(j, c=[_ct_clean(c, filler, nested_ct) for c in kids])


def sanitize(j):
    """Enforce the sandbox on a whole tree (idempotent, deterministic):
    * forms evaluated at compile time (arguments of eval-when-compile,
      eval-and-compile, do-mac, pragma; parameter list and body of defmacro)
      are cleaned by `_ct_clean`; macro bodies may not contain a compile-time
      evaluator themselves;
    * names of macros defined by the tree occur only as the head of a call
      outside compile-time code (no self-reproducing expansion);
    * `require` names only `hy.core.macros` or nonexistent modules;
    * no symbol outside the pools survives (replaced by `a`)."""
    filler = I(0)
    defined = set()
    for n, _ in walk(j):
        if _mangled(head_of(n) or "") == "defmacro" and len(n["c"]) > 1 and n["c"][1]["t"] == "Sym":
            defined.add(nk(n["c"][1]["v"]))
    allowed = set(PLAIN_SYMS) | set(SPECIAL_SYMS) | set(MACRO_NAME_SYMS) | REQUIRE_OK_SYMS | \
        {"&reader", "&key", "&compiler", "parse-one-form", "nomacro", "hy/core/macros", "R",
         "fname", "Cname", "attr"}

    def strip_defined(n):
        if n["t"] == "Sym" and nk(n["v"]) in defined:
            return filler
        return n

    def ct(c, nested_ct=True):
        return map_ir(_ct_clean(c, filler, nested_ct), strip_defined)

    def top(n, is_head=False):
        if n["t"] == "Sym":
            v = nk(n["v"])
            if v in defined and not is_head:
                return filler
            known = v in allowed or v in _known_heads()
            return n if known and v not in FORBIDDEN_NAMES - {"hy"} else S("a")
        if not is_seq(n):
            return n
        kids = n["c"]
        hm = _mangled(head_of(n) or "")
        if hm in _CT_HEADS_M:
            if hm == "defmacro":
                # (defmacro NAME PARAMS BODY...): name kept, the rest is compile-time code
                name = kids[1:2]
                if name and name[0]["t"] != "Sym":
                    name = [ct(name[0], False)]
                return dict(n, c=[kids[0]] + name + [ct(c, False) for c in kids[2:]])
            return dict(n, c=[kids[0]] + [ct(c) for c in kids[1:]])
        out = [top(c, is_head=(i == 0 and n["t"] == "Expr")) for i, c in enumerate(kids)]
        if hm == "require":
            def req(m):
                if m["t"] == "Sym" and nk(m["v"]) not in REQUIRE_OK_SYMS:
                    return S("nomod")
                return m
            out = [out[0]] + [map_ir(c, req) for c in out[1:]]
        return dict(n, c=out)

    return top(j)


_kh = set()


def _known_heads():
    if not _kh:
        _kh.update(TEMPLATES)
        try:
            _kh.update(core_heads())
        except Exception:
            pass
    return _kh


def is_sanitary(j):
    return sanitize(j) == j


# ------------------------------------------------------- C10: random generation

def gen_fcomp(rng, depth):
    val = gen_tree(rng, depth - 1) if rng.random() < 0.8 else gen_atom(rng)
    kids = [val]
    for _ in range(rng.choice([0, 0, 1, 1, 2])):
        r = rng.random()
        if r < 0.5:
            kids.append(STR(rng.choice(STRINGS)))
        elif r < 0.8 and depth > 1:
            kids.append(gen_fcomp(rng, depth - 1))
        else:
            kids.append(gen_tree(rng, depth - 1))
    if rng.random() < 0.05:
        kids = []
    return seq("FComp", kids, conv=rng.choice(CONVS), ts=rng.random() < 0.04)


def gen_fstr(rng, depth):
    kids = []
    for _ in range(rng.randint(0, 3)):
        r = rng.random()
        if r < 0.4:
            kids.append(STR(rng.choice(STRINGS)))
        elif r < 0.85:
            kids.append(gen_fcomp(rng, depth - 1))
        else:
            kids.append(gen_tree(rng, depth - 1))
    return seq("FStr", kids, b=rng.choice(BRACKETS), ts=rng.random() < 0.04)


def gen_head(rng, depth):
    """(head node, head label)"""
    r = rng.random()
    heads = core_heads()
    if r < 0.62:
        h = rng.choice(heads)
        return S(h), h
    if r < 0.74:
        return gen_sym(rng, special=0.35), "<call>"
    if r < 0.82:
        # method-call head (. None m ...), as the reader makes of `.m`
        dots = rng.choice([".", ".", ".", "..", "..."])
        parts = [S(rng.choice(PLAIN_SYMS)) for _ in range(rng.choice([0, 1, 1, 1, 2]))]
        first = S("None") if rng.random() < 0.9 else gen_atom(rng)
        return E(S(dots), first, *parts), "<method>"
    if r < 0.88:
        mod, name = rng.choice([("hy/core/macros", "when"), ("hy/core/macros", "cond"),
                                ("hy/core/macros", "export"), ("hy/core/macros", "nomacro"),
                                ("nomod", "foo"), ("hy/core/macros", "local-macros"),
                                ("hy/core/macros", "get-macro")])
        return E(S("."), S("hy"), S("R"), S(mod), S(name)), "<hy.R>"
    if r < 0.94 and depth > 1:
        return gen_tree(rng, depth - 1), "<call>"
    return gen_atom(rng), "<call>"


def gen_arg(rng, depth):
    r = rng.random()
    if depth <= 0 or r < 0.34:
        return gen_atom(rng)
    if r < 0.46:
        return rng.choice(fragments())
    if r < 0.56:
        t = rng.choice(sorted(templates()))
        return rng.choice(templates()[t])
    if r < 0.64:
        inner = gen_arg(rng, depth - 1)
        w = rng.random()
        if w < 0.4:
            return E(S("unpack-iterable"), inner)
        if w < 0.75:
            return E(S("unpack-mapping"), inner)
        if w < 0.9:
            return E(S("annotate"), inner, gen_arg(rng, depth - 1))
        return E(S(rng.choice(["unpack-iterable", "unpack-mapping"])),
                 *[gen_arg(rng, depth - 1) for _ in range(rng.choice([0, 0, 2]))])
    return gen_tree(rng, depth)


def gen_tree(rng, depth):
    """A random compound form of nesting <= depth."""
    if depth <= 0:
        return gen_atom(rng)
    r = rng.random()
    if r < 0.58:
        head, _ = gen_head(rng, depth)
        n = rng.choice([0, 1, 1, 2, 2, 2, 3, 3, 4, 5])
        if rng.random() < 0.03:
            return E()
        return E(head, *[gen_arg(rng, depth - 1) for _ in range(n)])
    if r < 0.68:
        return seq("List", [gen_arg(rng, depth - 1) for _ in range(rng.randint(0, 4))])
    if r < 0.74:
        return seq("Tuple", [gen_arg(rng, depth - 1) for _ in range(rng.randint(0, 3))])
    if r < 0.80:
        return seq("Set", [gen_arg(rng, depth - 1) for _ in range(rng.randint(0, 3))])
    if r < 0.88:
        return seq("Dict", [gen_arg(rng, depth - 1) for _ in range(rng.randint(0, 5))])
    if r < 0.95:
        return gen_fstr(rng, depth)
    return gen_fcomp(rng, depth)


def gen_direct(rng, head=None, depth=5):
    """Random tree with the given top-level head label (a macro name or one of
    <call> <method> <hy.R> <literal>)."""
    d = rng.choice([2, 3, 3, 4, depth])
    if head is None or head == "<literal>":
        while True:
            t = gen_tree(rng, d)
            if is_seq(t) and (head is None or t["t"] != "Expr"):
                break
    else:
        if head.startswith("<"):
            while True:
                hn, lab = gen_head(rng, d)
                if lab == head:
                    break
        else:
            hn = S(head)
        n = rng.choice([0, 1, 1, 2, 2, 2, 3, 3, 4, 5, 6])
        t = E(hn, *[gen_arg(rng, d - 1) for _ in range(n)])
    return finish(t, depth)


def finish(t, depth=5, size=90):
    return sanitize(limit_size(limit_depth(t, depth), size))


def _positions(j, path=()):
    """Paths of all sequence nodes."""
    if is_seq(j):
        yield path
        for i, c in enumerate(j["c"]):
            yield from _positions(c, path + (i,))


def _get(j, path):
    for i in path:
        j = j["c"][i]
    return j


def _set(j, path, new):
    if not path:
        return new
    kids = list(j["c"])
    kids[path[0]] = _set(kids[path[0]], path[1:], new)
    return dict(j, c=kids)


def retype(rng, node, depth=2):
    """A node of a different kind than `node`."""
    r = rng.random()
    if is_seq(node) and r < 0.35:
        kinds = [k for k in ("Expr", "List", "Tuple", "Set", "Dict", "FStr", "FComp") if k != node["t"]]
        return seq(rng.choice(kinds), node["c"])
    if r < 0.5:
        return E(S(rng.choice(["unpack-iterable", "unpack-mapping"])), node)
    if r < 0.58:
        return E(S("annotate"), node, S("T"))
    if r < 0.66:
        return L(node)
    for _ in range(20):
        new = gen_arg(rng, depth)
        if new["t"] != node["t"]:
            return new
    return KW("k")


def respell(rng, ir):
    """Replace one symbol or keyword, in whatever position it is (value, target, parameter,
    attribute, keyword argument, capture, import name, macro head ...), by a compatibility
    spelling of itself or of a constant."""
    spots = [p for p in _leafpaths(ir) if _get(ir, p)["t"] in ("Sym", "Kw") and _get(ir, p)["v"]]
    if not spots:
        return ir
    p = rng.choice(spots)
    node = _get(ir, p)
    if rng.random() < 0.55:
        new = fullwidth(node["v"])
    else:
        new = rng.choice(COMPAT_SYMS[:3] + COMPAT_SYMS[-5:] + COMPAT_SYMS[3:6])
    return _set(ir, p, dict(node, v=new))


def _leafpaths(j, path=()):
    if is_seq(j):
        for i, c in enumerate(j["c"]):
            yield from _leafpaths(c, path + (i,))
    else:
        yield path


def mutate_once(rng, ir):
    """Delete / duplicate / swap / retype one argument somewhere in the tree."""
    if rng.random() < 0.12:
        return respell(rng, ir), "respell"
    paths = [p for p in _positions(ir) if _get(ir, p)["c"]]
    if not paths:
        return ir, "none"
    # prefer shallow positions (the macro's own argument list)
    paths.sort(key=len)
    p = paths[min(int(rng.expovariate(0.9)), len(paths) - 1)]
    node = _get(ir, p)
    kids = list(node["c"])
    lo = 1 if (node["t"] == "Expr" and len(kids) > 1 and rng.random() < 0.9) else 0
    i = rng.randrange(lo, len(kids))
    op = rng.choice(["delete", "duplicate", "swap", "retype", "retype", "insert"])
    if op == "delete":
        del kids[i]
    elif op == "duplicate":
        kids.insert(i, kids[i])
    elif op == "swap":
        if len(kids) - lo < 2:
            op = "retype"
            kids[i] = retype(rng, kids[i])
        else:
            k = rng.randrange(lo, len(kids))
            if k == i:
                k = lo + (i - lo + 1) % (len(kids) - lo)
            kids[i], kids[k] = kids[k], kids[i]
    elif op == "retype":
        kids[i] = retype(rng, kids[i])
    else:
        kids.insert(i, gen_arg(rng, 1))
    return _set(ir, p, dict(node, c=kids)), op


def embed(rng, outer, inner):
    """Put `inner` into a random argument slot of `outer`."""
    paths = [p for p in _positions(outer) if _get(outer, p)["c"]]
    if not paths:
        return dict(outer, c=[inner]) if is_seq(outer) else inner
    p = rng.choice(paths)
    node = _get(outer, p)
    kids = list(node["c"])
    lo = 1 if (node["t"] == "Expr" and len(kids) > 1) else 0
    i = rng.randrange(lo, len(kids))
    kids[i] = inner
    return _set(outer, p, dict(node, c=kids))


def gen_mutant(rng, head, depth=5):
    """(ir, [ops]) — a mutated valid template of `head`."""
    tpls = templates().get(head) or [E(S(head), S("a"), S("b"))]
    ir = rng.choice(tpls)
    ops = []
    if rng.random() < 0.3:
        other = rng.choice(sorted(templates()))
        ir = embed(rng, ir, rng.choice(templates()[other]))
        ops.append("embed:" + other)
    elif rng.random() < 0.15:
        other = rng.choice(sorted(templates()))
        ir = embed(rng, rng.choice(templates()[other]), ir)
        ops.append("embedded-in:" + other)
    for _ in range(rng.choice([1, 1, 1, 2, 2, 3])):
        ir, op = mutate_once(rng, ir)
        ops.append(op)
    return finish(ir, depth), ops


# ------------------------------------------------- C10: regression corpus

# Input classes behind every mechanism that was found and repaired (known_findings.json,
# status fixed). Witness texts with placeholders that are expanded over small pools, so that
# each class is exercised in several spellings; `regress_cases` also nests every variant in
# a few host forms. %EMPTY% = a form that compiles to no code, %STMT% = a form that compiles
# to statements without an expression, %FALSY% = a falsy literal model, %CONST% = None/True/
# False in ASCII and in compatibility spellings.
REGRESS_POOLS = {
    "%EMPTY%": ["(do)", "(eval-when-compile 1)", "(pragma :warn-on-core-shadow False)", "(do (do))", "(import)"],
    "%STMT%": ["(setv z 1)", "(del z)", "(for [q w] 1)", "(annotate z T)", "(+= z 1)", "(import a)"],
    "%FALSY%": ['""', "[]", "0", "{}", "#()", 'b""', "0.0", "()"],
    "%CONST%": ["None", "True", "False", fullwidth("True"), fullwidth("None"),
                "\U0001d405\U0001d41a\U0001d425\U0001d42c\U0001d41e"],
    "%WILD%": [fullwidth("_")],
}
REGRESS = {
    "dict-display-odd-or-misaligned": ["{1}", '{#** a "k"}', '{"k" #** a 1}', "{a b c}", "(f {x})"],
    "chainc-without-operator": ["(chainc x)", "(chainc (f x))"],
    "unpack-mapping-in-comparison": ["(< #** m 1)", "(chainc a < #** b)", "(= a #** b c)", "(in #** a b)",
                                     "(is-not a #** b)"],
    "unpack-mapping-misplaced": ["[a #** b]", "#(a #** b)", "#{#** b}", "(get a b #** c)", "(defn [#** a] f [])",
                                 "(try 1 (except [[E #** a]] 2))"],
    "unpack-mapping-arity": ["(f (unpack-mapping))", "{(unpack-mapping)}", "(.m obj (unpack-mapping))",
                             "(f (unpack-mapping a b))", "{(unpack-mapping a b)}"],
    "annotate-sequence-or-starred-target": ["(annotate [] T)", "(annotate #* c T)", "(setv #^ T [a b] 1)",
                                            "(annotate #(a b) T)", "(let [#^ T [a b] c] a)"],
    "augassign-sequence-or-starred-target": ["(+= [a] 1)", "(@= #(y) k)", "(>>= #* a b)", "(-= [a b] 1 2)"],
    "fcomponent-value-without-expression": ['f"{%STMT%}"', 'f"a{%STMT% !r :>4}b"'],
    "assert-falsy-message-model": ["(assert x %FALSY%)"],
    "loop-body-of-only-an-elided-nonlocal": ["(defn f [] (let [a 1] (let [b 2] (while c (nonlocal a)))))",
                                             "(defn f [] (let [a 1] (let [b 2] (for [x xs] (nonlocal a)))))",
                                             "(defn f [] (let [a 1] (let [b 2] (for [x xs] 1 (else (nonlocal a))))))",
                                             "(defn f [] (let [a 1] (let [b 2] (with [o] (nonlocal a b)))))"],
    "module-level-nonlocal-of-defined-name": ["(do (setv a 1) (nonlocal a))", "(do (setv a 1 b 2) (nonlocal b a))"],
    "deftype-constant-name": ["(deftype %CONST% x)"],
    "type-parameter-constant-name": ["(fn :tp [%CONST%] [a] a)", "(deftype :tp [#* %CONST%] T x)",
                                     "(defn :tp [#** %CONST%] f [])", "(defclass :tp [%CONST%] foo)"],
    "type-parameter-falsy-bound-model": ["(defn :tp [#^ %FALSY% T] f [])", "(deftype :tp [#^ %FALSY% K] T K)",
                                         "(defclass :tp [#^ %FALSY% T] foo)"],
    "match-or-pattern-with-fewer-than-two-alternatives": ["(match x (| 1) 2)", "(match x (|) 2)", "(match x [(| y)] 2)",
                                                          '(match x {"k" (| 1)} 2)'],
    "match-class-pattern-on-constant-base": ["(match x (.foo 1) 2)", "(match x (%CONST% 1) 2)", "(match x (... 1) 2)"],
    "match-capture-constant-name": ["(match x [#* %CONST%] 1)", '(match x {"a" 1 #** %CONST%} 1)',
                                    "(match x (foo :%CONST% 1) 1)", "(match x %CONST% 1)",
                                    "(match x [1 b] :as %CONST% 2)"],
    "match-guard-without-expression": ["(match x y :if %STMT% 2)", "(match x 1 2 y :if %STMT% 3)"],
    "match-value-pattern-not-an-attribute-lookup": ["(match x (. T) 1)", "(match x (. None a) 1)"],
    "match-wildcard-in-compatibility-spelling": ["(match v %WILD% 1)", "(match v (foo 1 %WILD%) 2)",
                                                 "(match v [#* %WILD%] 1)", '(match v {"k" %WILD%} 3)'],
    "match-mapping-rest-wildcard": ['(match m {"k" x #** _} 1)', "(match m {#** _} 1)", '(match m {"k" x #** %WILD%} 1)'],
    "match-as-wildcard": ["(match a [1 b] :as _ 2)", "(match a [1 b] :as %WILD% 2)", "(match a 1 :as _ 2)",
                          "(match a (foo x) :as _ :if x 2)"],
    "match-mapping-without-rest-in-comprehension": ['(lfor x [(match d {"k" a} 1)] x)',
                                                    '(gfor x [(match d {"k" a "j" b} 1)] x)'],
    "comprehension-part-without-expression": ["(lfor x y %EMPTY%)", "(lfor x %EMPTY% x)", "(lfor x y :if %EMPTY% x)",
                                              "(dfor x y %EMPTY% 1)", "(dfor x y 1 %EMPTY%)", "(sfor x y %EMPTY%)",
                                              "(gfor x y %EMPTY%)", "(lfor x y :setv z %EMPTY% z)",
                                              "(for [x %EMPTY%] 1)"],
    "position-taken-from-empty-result": ["(assert %EMPTY% (do y (setv y 2)))", "(setv :chain [b] %EMPTY%)",
                                         "(for [x %EMPTY%] (setv y x))"],
    "try-finally-without-statements": ["(try 1 (finally %EMPTY%))", "(try (f) (finally %EMPTY% %EMPTY%))"],
    "for-body-compiling-to-nothing": ["(for [x y] %EMPTY%)", "(for [x y] %EMPTY% %EMPTY%)",
                                      "(for [:async x y] %EMPTY%)", "(for [x y] %EMPTY% (else 1))"],
    "import-empty-name-list": ["(import foo [])", "(import .. [])", "(import a b [] c)"],
    "constant-in-compatibility-spelling-as-value": ["(is %CONST% None)", "(setv x %CONST%)", "(f :k %CONST%)",
                                                    "[%CONST% %CONST%]"],
}
REGRESS_HOSTS = ["%W%", "(do %W%)", "(fn [] %W%)", "(f %W% 1)", "[%W%]", "(setv r %W%)", "(if c %W% None)",
                 "(defn g [p] %W% p)", "(try %W% (except [E] 1))", "(when c (g) %W%)", "(defclass foo [] %W%)",
                 "(with [o (f)] %W%)"]
_regress_cache = []


def regress_corpus():
    """[(key, ir)]: every witness variant, alone and inside each host form (cached)."""
    if _regress_cache:
        return _regress_cache
    import hy  # noqa: F401
    from hy.reader import read_many

    def expand(text):
        for ph, pool in REGRESS_POOLS.items():
            if ph in text:
                out = []
                for v in pool:
                    out.extend(expand(text.replace(ph, v, 1)))
                return out
        return [text]

    seen = set()
    for key, texts in REGRESS.items():
        variants = [v for t in texts for v in expand(t)]
        for vi, v in enumerate(variants):
            # every variant alone, and in three hosts that rotate with the variant index
            hosts = [REGRESS_HOSTS[0]] + [REGRESS_HOSTS[1 + (vi * 3 + k) % (len(REGRESS_HOSTS) - 1)] for k in range(3)]
            for h in hosts:
                text = h.replace("%W%", v)
                if text in seen:
                    continue
                seen.add(text)
                try:
                    forms = list(read_many(text, filename="<regress>"))
                except Exception:
                    continue
                if len(forms) == 1:
                    _regress_cache.append((key, finish(enc(forms[0]), 5)))
    # shapes only a model constructor can make
    for host in (lambda x: x, lambda x: seq("FStr", [STR("a"), x]), lambda x: E(S("f"), seq("FStr", [x]))):
        for conv in (None, "r"):
            _regress_cache.append(("fcomponent-without-value", host(seq("FComp", [], conv=conv))))
    for kids in ([I(1)], [S("a"), S("b"), S("c")], [E(S("unpack-mapping"), S("a")), STR("k")]):
        _regress_cache.append(("dict-display-odd-or-misaligned", seq("Dict", kids)))
        _regress_cache.append(("dict-display-odd-or-misaligned", E(S("f"), seq("Dict", kids))))
    return _regress_cache


_clause_cache = []
CLAUSE_HOSTS = ["%W%", "(setv r %W%)", "(f %W%)", "(fn [] %W%)"]


def empty_clause_corpus():
    """[(key, ir)]: `try` with every combination of absent / empty / non-empty body, 0-2
    `except` clauses (specs [] [E] [e E] [[E K]], bodies absent / empty-compiling / present),
    `else` and `finally` (absent, no forms, forms compiling to nothing, forms), and the
    analogous empty-clause shapes of while, for, with, cond, when, match, defclass, if, fn,
    defn, let; each alone and in three host forms. Deterministic; dealt to the shards."""
    if _clause_cache:
        return _clause_cache
    import hy  # noqa: F401
    from hy.reader import read_many
    texts = []
    specs = ["[]", "[E]", "[e E]", "[[E K]]"]
    ebodies = ["", " 1", " (do)"]
    one = [f"(except {sp}{b})" for sp in specs for b in ebodies]
    excepts = [""] + one + [c + " (except [K] 2)" for c in one] + [f"(except [E] 1) (except {sp})" for sp in specs]
    for body in ["", "x", "(do)"]:
        for ex in excepts:
            for el in ["", "(else)", "(else 1)", "(else (do))"]:
                for fin in ["", "(finally)", "(finally y)", "(finally (do))"]:
                    texts.append(("try", " ".join(p for p in ["(try", body, ex, el, fin] if p) + ")", False))
    others = {
        "while": ["(while c)", "(while c (else))", "(while c (else 1))", "(while c (do))", "(while c (do) (else (do)))",
                  "(while (do) 1)", "(while c 1 (else))", "(while c (break) (else (do)))"],
        "for": ["(for [x y])", "(for [x y] (else))", "(for [x y] 1 (else))", "(for [x y] (else (do)))", "(for [] (else))",
                "(for [] 1)", "(for [] (else 1))", "(for [x y] (do) (else))", "(for [:async x y] (else))"],
        "with": ["(with [] 1)", "(with [])", "(with [(f)])", "(with [a (f)])", "(with [a (f)] (do))",
                 "(with [:async a (f)])", "(with [a (f) b (g)])", "(with [(do)] 1)"],
        "cond": ["(cond)", "(cond a (do))", "(cond (do) 1)", "(cond a 1 b (do))"],
        "when": ["(when c)", "(when c (do))", "(when (do))"],
        "match": ["(match x)", "(match (do))", "(match x y (do))", "(match x _ (do))", "(match x 1 (do) _ (do))",
                  "(match x y :if (do) 1)"],
        "defclass": ["(defclass foo)", "(defclass foo [])", "(defclass foo [] (do))", '(defclass foo [] "doc")',
                     "(defclass foo [] (eval-when-compile 1))", '(defclass foo [] "doc" (do))', "(defclass [] foo)"],
        "if": ["(if c (do) (do))", "(if c (do) 1)", "(if c 1 (do))", "(if (do) 1 2)", "(if True (do) 1)",
               "(if False 1 (do))", "(if None (do) (do))", "(if c (eval-when-compile 1) (pragma :warn-on-core-shadow False))",
               "(if c (do (setv z 1)) (do))", "(if c (do) (do (setv z 1)))"],
        "fn": ["(fn [])", "(fn [] (do))", "(defn f [])", "(defn f [] (do))", '(defn f [] "doc")', "(fn :async [] (do))",
               "(defn [] f [])"],
        "let": ["(let [])", "(let [] (do))", "(let [a 1])", "(let [a (do)] a)", "(do)", "(do (do) (do))"],
    }
    for key, ts in others.items():
        texts.extend((key, t, True) for t in ts)
    for key, t, hosted in texts:
        for h in (CLAUSE_HOSTS if hosted else CLAUSE_HOSTS[:2]):
            forms = list(read_many(h.replace("%W%", t), filename="<clauses>"))
            _clause_cache.append(("empty-clause:" + key, finish(enc(forms[0]), 5)))
    return _clause_cache


def regress_keys():
    return sorted(set(REGRESS) | {"fcomponent-without-value"} |
                  {"empty-clause:" + k for k in ("try", "while", "for", "with", "cond", "when", "match", "defclass",
                                                 "if", "fn", "let")})


# ---------------------------------------------------- C10: shape signature

def shape(j):
    t = j["t"]
    if not is_seq(j):
        if t == "Sym" and j["v"] in SPECIAL_SYMS:
            return "S:" + j["v"]
        if t == "Kw" and j["v"] in SPECIAL_KWS:
            return "K:" + j["v"]
        return t[0] if t != "Str" else "s"
    h = head_of(j)
    n = len(j["c"])
    nb = n if n < 3 else "3+"
    if t == "Expr":
        return f"({h if h is not None else '?'} {nb})"
    return f"{t}{nb}"


def signature(j):
    """(head label, argument-shape signature) of a top-level form."""
    if j["t"] != "Expr":
        return "<" + j["t"] + ">", ",".join(shape(c) for c in j["c"][:8])
    if not j["c"]:
        return "<empty>", ""
    h = j["c"][0]
    if h["t"] == "Sym":
        lab = h["v"]
    elif h["t"] == "Expr" and h["c"] and h["c"][0]["t"] == "Sym" and not h["c"][0]["v"].strip("."):
        lab = "<hy.R>" if [c.get("v") for c in h["c"][1:3]] == ["hy", "R"] else "<method>"
    else:
        lab = "<call>"
    return lab, ",".join(shape(c) for c in j["c"][1:9])


# --------------------------------------------------------- C11: leaf forms

UNPACK_SLOT_KINDS = (["plain"] * 7 + ["star"] * 3 + ["dstar"] * 3 + ["kw"] * 3 +
                     ["long-star", "long-dstar", "star-surplus", "dstar-surplus", "dstar-surplus"])
RARE_SLOT_KINDS = ["star-empty", "dstar-empty"]
OBJ_FORMS = ["call", "method", "dot", "get"]                 # evaluate to a stand-in
HASHABLE_FORMS = OBJ_FORMS + ["op", "cut", "tuple", "fstring", "cmp", "chainc", "fn"]
ANY_FORMS = ["call", "call", "method", "dot", "list", "tuple", "set", "dict", "get", "cut", "op", "cmp",
             "chainc", "fstring", "fn", "fn"]
TOP_FORMS = ["decorators", "bases", "assert", "assert", "try", "try", "fn", "defn", "defn", "defn", "setv"]
CMP1 = ("=", "is", "<", "<=", ">", ">=")                    # accept a single operand


class LeafGen:
    """Builds one straight-line form; every evaluated leaf is a fresh vN.
    `want` steers nested operands so that running the form on stand-in values
    rarely raises: 'obj' = something callable/subscriptable (a leaf or a call-like
    form), 'hashable' = not a list/set/dict display, 'any'."""

    def __init__(self, rng, max_nest=3):
        self.rng = rng
        self.n = 0
        self.kn = 0
        self.max_nest = max_nest
        self.unpacks = 0
        self.kinds = set()
        self.wrap_p = rng.choice([0.0, 0.15, 0.3])
        # tame forms keep every slot kind legal for its context, so most of them are accepted
        # (and run); hostile forms put every kind in every slot
        self.tame = rng.random() < 0.6
        self.wrapped = 0
        # run-time model for the control-flow forms (assert, try)
        self.special = {}        # leaf name -> "falsy" | "exc:<k>" (value the recording namespace returns)
        self.runtime = None      # leaf names that must be read at run time (None = all)
        self.expect_exc = None   # exception type name that ends a *complete* run
        self.not_run = []        # leaves control flow never reaches (bodies of functions nobody calls)
        self.pn = 0

    def bare_leaf(self):
        s = S(f"v{self.n}")
        self.n += 1
        return s

    def leaf(self):
        """A leaf variable, bare or inside the statement wrapper (do (setv tN vN) tN),
        which forces the compiler to hoist a statement out of the slot."""
        s = self.bare_leaf()
        if self.rng.random() < self.wrap_p:
            self.kinds.add("leaf:stmt-wrapped")
            self.wrapped += 1
            t = S("t" + s["v"][1:])
            return E(S("do"), E(S("setv"), t, s), t)
        return s

    def kwname(self):
        self.kn += 1
        return KW(f"k{self.kn}")

    def operand(self, nest, want="any"):
        """A leaf or a nested form."""
        if nest >= self.max_nest or self.rng.random() < 0.55:
            return self.leaf()
        kinds = {"obj": OBJ_FORMS, "hashable": HASHABLE_FORMS}.get(want, ANY_FORMS)
        return self.form(nest + 1, self.rng.choice(kinds))

    TAME = {"call": {"plain", "kw", "star", "dstar", "long-star", "long-dstar"},
            "elem": {"plain", "star", "long-star"}, "plain": {"plain"}}

    def slot(self, nest, allow=None, want="any", ctx="elem"):
        """List of IR nodes filling one argument/element slot. `ctx` says which kinds the
        surrounding form can express: call arguments, collection elements / operator
        operands (shadowed by hy.pyops under #*), or plain operands only."""
        rng = self.rng
        if allow is None:
            allow = RARE_SLOT_KINDS if (rng.random() < 0.03 and not self.tame) else UNPACK_SLOT_KINDS
        if self.tame:
            allow = [k for k in allow if k in self.TAME[ctx]] or ["plain"]
        kind = rng.choice(allow)
        self.kinds.add("slot:" + kind)
        if kind == "plain":
            return [self.operand(nest, want)]
        if kind == "kw":
            return [self.kwname(), self.operand(nest, want)]
        self.unpacks += 1
        if kind in ("star", "long-star"):
            return [E(S("unpack-iterable"), self.operand(nest, "obj"))]
        if kind in ("dstar", "long-dstar"):
            return [E(S("unpack-mapping"), self.operand(nest, "obj"))]
        if kind == "star-surplus":
            return [E(S("unpack-iterable"), self.operand(nest, "obj"), self.operand(nest))]
        if kind == "dstar-surplus":
            return [E(S("unpack-mapping"), self.operand(nest, "obj"), self.operand(nest))]
        if kind == "star-empty":
            return [E(S("unpack-iterable"))]
        return [E(S("unpack-mapping"))]

    def slots(self, nest, lo, hi, allow=None, want="any", ctx="elem"):
        out = []
        for _ in range(self.rng.randint(lo, hi)):
            out.extend(self.slot(nest, allow, want, ctx))
        return out

    def form(self, nest=0, kind=None):
        rng = self.rng
        if kind is None:
            kind = rng.choice(ANY_FORMS + (TOP_FORMS if nest == 0 else []))
        self.kinds.add("form:" + kind)
        objslot = ["plain", "plain", "plain", "star", "dstar"]
        if kind == "call":
            return E(self.operand(nest, "obj"), *self.slots(nest, 0, 4, ctx="call"))
        if kind == "method":
            # (.m obj args...): the object may come after keyword/mapping slots
            pre = self.slots(nest, 0, 1, ["kw", "dstar", "long-dstar"], ctx="call") if rng.random() < 0.2 else []
            return E(E(S("."), S("None"), S("m")), *pre, self.operand(nest, "obj"), *self.slots(nest, 0, 3, ctx="call"))
        if kind == "dot":
            parts = []
            for _ in range(rng.randint(1, 3)):
                r = rng.random()
                if r < 0.45:
                    parts.append(E(S("m"), *self.slots(nest, 0, 3, ctx="call")))
                elif r < 0.8:
                    parts.append(L(*self.slot(nest, ["plain", "plain", "plain", "star", "dstar", "dstar-surplus"], ctx="plain")))
                else:
                    parts.append(S("attr"))
            return E(S("."), self.operand(nest, "obj"), *parts)
        if kind in ("list", "tuple", "set"):
            return seq({"list": "List", "tuple": "Tuple", "set": "Set"}[kind],
                       self.slots(nest, 1, 4, want="hashable" if kind == "set" else "any"))
        if kind == "dict":
            kids = []
            for _ in range(rng.randint(1, 3)):
                r = rng.random()
                if r < 0.55:
                    kids += [self.operand(nest, "hashable"), self.operand(nest)]
                elif r < 0.8:
                    self.unpacks += 1
                    self.kinds.add("slot:dict-dstar")
                    kids.append(E(S("unpack-mapping"), self.operand(nest, "obj")))
                else:
                    # any slot kind, keeping the display even-length where possible
                    s = self.slot(nest, want="hashable", ctx="plain")
                    kids += s if len(s) == 2 else s + [self.operand(nest)]
            return seq("Dict", kids)
        if kind == "get":
            return E(S("get"), *self.slot(nest, objslot, "obj", "plain"), *self.slots(nest, 1, 3, want="hashable"))
        if kind == "cut":
            return E(S("cut"), *self.slot(nest, objslot, "obj", "plain"),
                     *self.slots(nest, 0, 3, want="hashable", ctx="plain"))
        if kind == "op":
            op = rng.choice(["+", "-", "*", "/", "//", "%", "**", "<<", ">>", "|", "^", "&", "@", "bnot"])
            lo, hi = {"%": (2, 2), "^": (2, 2), "bnot": (1, 1)}.get(op, (1, 4))
            return E(S(op), *self.slots(nest, lo, hi, want="obj"))
        if kind == "cmp":
            op = rng.choice(["=", "<", "<=", ">", ">=", "!=", "is", "is-not", "in", "not-in"])
            if op in ("is", "is-not", "not-in"):
                # a chain of these would short-circuit on the stand-ins: at most two operands
                nokw = [k for k in UNPACK_SLOT_KINDS if k != "kw"]
                first = self.slot(nest, nokw, "obj")
                if op == "is" and rng.random() < 0.3:
                    return E(S(op), *first)
                return E(S(op), *first, *self.slot(nest, nokw, "obj"))
            return E(S(op), *self.slots(nest, 1 if (op in CMP1 and rng.random() < 0.3) else 2, 4, want="obj"))
        if kind == "chainc":
            kids = list(self.slot(nest, objslot, "obj", "plain"))
            n = rng.randint(1, 3)
            for i in range(n):
                # only the last link may be one that yields a falsy result on stand-ins
                ops = ["<", "<=", "=", "!=", "in", ">", ">="] + (["is", "is-not", "not-in"] if i == n - 1 else [])
                kids.append(S(rng.choice(ops)))
                kids.extend(self.slot(nest, ["plain", "plain", "plain", "star", "dstar", "long-dstar",
                                             "dstar-surplus"], "obj", "plain"))
            return E(S("chainc"), *kids)
        if kind == "fstring":
            kids = []
            fval = ["plain"] * 8 + ["star", "dstar"]
            for _ in range(rng.randint(1, 3)):
                r = rng.random()
                if r < 0.3:
                    kids.append(STR("s"))
                elif r < 0.9 or self.tame:
                    conv = rng.choice([None, None, "r", "s", "a"])
                    val = self.slot(nest, fval, ctx="plain")
                    spec = []
                    # after a conversion the spec applies to a str: keep it a single valid piece
                    for _ in range(rng.choice([0, 1]) if conv else rng.choice([0, 1, 1, 2])):
                        q = rng.random()
                        if q < 0.35:
                            spec.append(STR(">4"))
                        elif q < 0.85 or self.tame:
                            spec.append(seq("FComp", self.slot(nest, fval, ctx="plain"), conv=rng.choice([None, "r"])))
                        else:
                            spec.extend(self.slot(nest, ["dstar", "star", "dstar-surplus"]))
                    kids.append(seq("FComp", val + spec, conv=conv))
                else:
                    kids.extend(self.slot(nest, ["dstar", "star", "dstar-surplus"]))
            return seq("FStr", kids)
        if kind == "assert":
            # (assert TEST [MSG]): MSG is evaluated only if TEST is falsy -> the test leaf's
            # stand-in is falsy in half of the forms, and the run then ends in AssertionError
            if rng.random() < 0.75:
                test = self.leaf()
                tname = leaves_of(test)[0]
                falsy = rng.random() < 0.5
            else:
                test, falsy = self.form(nest + 1, rng.choice(OBJ_FORMS)), False
            kids = [S("assert"), test]
            if rng.random() < 0.8:
                kids.append(self.operand(nest))
            if falsy:
                self.special[tname] = "falsy"
                self.expect_exc = "AssertionError"
                self.kinds.add("assert:test-falsy")
            else:
                self.runtime = leaves_of(test)
                self.kinds.add("assert:test-truthy")
            return E(*kids)
        if kind == "try":
            # (try ... (raise vB) (except [T..] H)*2..3 [(else ..)] [(finally ..)]): the body raises
            # exception class 0; clause k is the first whose type matches, so the type forms of
            # clauses 0..k and handler k are evaluated
            n = rng.randint(2, 3)
            k = rng.randrange(n)
            pre = [self.operand(nest)] if rng.random() < 0.4 else []
            raised = self.bare_leaf()
            self.special[raised["v"]] = "exc:0"
            body = pre + [E(S("raise"), raised)]
            run = [x for b in body for x in leaves_of(b)]
            clauses = []
            for i in range(n):
                variant = rng.choice(["single", "single", "named", "list", "named-list"])
                types = [self.leaf() for _ in range(2 if "list" in variant else 1)]
                names = [leaves_of(t)[0] for t in types]
                hit = rng.randrange(len(types))
                for j, nm in enumerate(names):
                    self.special[nm] = "exc:0" if (i == k and j == hit) else f"exc:{i * 2 + j + 1}"
                spec = L(*types) if "list" in variant else types[0]
                handler = self.operand(nest)
                clauses.append(E(S("except"), L(S("e"), spec) if "named" in variant else L(spec), handler))
                self.kinds.add("try:except-" + variant)
                if i <= k:
                    run += names
                if i == k:
                    run += leaves_of(handler)
            tail = []
            if rng.random() < 0.3:
                tail.append(E(S("else"), self.operand(nest)))
            if rng.random() < 0.4:
                fin = self.operand(nest)
                run += leaves_of(fin)
                tail.append(E(S("finally"), fin))
            self.runtime = run
            return E(S("try"), *body, *clauses, *tail)
        if kind in ("fn", "defn"):
            return self.function(nest, kind)
        if kind == "setv":
            return E(S("setv"), S("r"), self.operand(nest))
        if kind == "decorators":
            return E(S("defn"), L(*self.slots(nest, 1, 3, want="obj", ctx="plain")), S("fname"), L(), I(1))
        if kind == "bases":
            return E(S("defclass"), L(*self.slots(nest, 0, 2, ["plain", "star", "dstar", "dstar-surplus"], "obj", "plain")),
                     S("Cname"), L(*self.slots(nest, 0, 3, want="obj", ctx="call")))
        raise ValueError(kind)


def _function(self, nest, kind):
    """(fn [params] body) / (defn [decorators] name [params] body), optionally called at once.
    Leaves sit in the positions evaluated when the definition executes - parameter
    annotations, defaults, the return annotation, decorators - and in the body, which is
    reached only if the function is called (otherwise its leaves are `not_run`)."""
    rng = self.rng
    ann_p = rng.choice([0.0, 0.3, 0.6])

    def pname():
        self.pn += 1
        return S(f"p{self.pn}")

    def value():
        return self.leaf() if (nest + 1 >= self.max_nest or rng.random() < 0.8) else self.operand(nest + 1)

    def annotated(target):
        if rng.random() < ann_p:
            self.kinds.add("fn:param-annotation")
            return E(S("annotate"), target, value())
        return target

    npos = rng.choice([0, 0, 1, 1, 2])
    nreg = rng.randint(0, 2)
    first_default = rng.randint(0, npos + nreg)
    positional, required = [], 0
    for i in range(npos + nreg):
        nm = pname()
        if i >= first_default and rng.random() < 0.8:
            self.kinds.add("fn:default")
            positional.append(annotated(L(nm, value())))
        elif i >= first_default:
            positional.append(annotated(L(nm, I(1))))
        else:
            required += 1
            positional.append(annotated(nm))
    params = positional[:npos] + ([S("/")] if npos else []) + positional[npos:]
    if npos:
        self.kinds.add("fn:positional-only")
    star = rng.choice(["", "", "*", "rest"])
    kwcall = []
    if star == "rest":
        self.kinds.add("fn:varargs")
        params.append(annotated(E(S("unpack-iterable"), pname())))
    if star:
        nkw = rng.randint(1 if star == "*" else 0, 2)
        if star == "*":
            params.append(S("*"))
        for _ in range(nkw):
            self.kinds.add("fn:keyword-only")
            nm = pname()
            if rng.random() < 0.5:
                params.append(annotated(L(nm, value())))
            else:
                params.append(annotated(nm))
                kwcall += [KW(nm["v"]), I(1)]
    if rng.random() < 0.3:
        self.kinds.add("fn:kwargs")
        params.append(annotated(E(S("unpack-mapping"), pname())))
    plist = L(*params)
    ret = None
    if rng.random() < ann_p:
        self.kinds.add("fn:return-annotation")
        ret = value()
    tp = [KW("tp"), L(S("T"))] if rng.random() < 0.08 else []
    if tp:
        self.kinds.add("fn:type-params")
    # body: an expression only (fn may become a lambda), or with a statement
    before = self.n
    style = rng.choice(["expr", "expr", "stmt", "two"])
    save, self.wrap_p = self.wrap_p, (0.0 if style == "expr" else self.wrap_p)
    body = [self.operand(nest + 1)] if nest + 1 < self.max_nest else [self.leaf()]
    self.wrap_p = save
    if style == "stmt":
        lf = self.bare_leaf()
        body = [E(S("setv"), S("q"), lf)] + body
    elif style == "two":
        body = [self.leaf()] + body
    self.kinds.add("fn:body-" + style)
    body_leaves = [f"v{i}" for i in range(before, self.n)]
    called = rng.random() < 0.45
    self.kinds.add("fn:called" if called else "fn:not-called")
    if not called:
        self.not_run += body_leaves
    args = [I(1)] * required + kwcall
    if kind == "fn":
        head = [S("fn")] + tp + [E(S("annotate"), plist, ret) if ret is not None else plist]
        f = E(*head, *body)
        return E(f, *args) if called else f
    name = S("fname")
    decos = [L(*[self.leaf() for _ in range(rng.randint(1, 2))])] if rng.random() < 0.3 else []
    if decos:
        self.kinds.add("fn:decorators")
    d = E(S("defn"), *decos, *tp, E(S("annotate"), name, ret) if ret is not None else name, plist, *body)
    if called and not decos:
        return E(S("do"), d, E(name, *args))
    if called:
        # a decorated name is rebound to whatever the (stand-in) decorator returns: not callable as f
        self.not_run += body_leaves
    return d


LeafGen.function = _function


def gen_leafform(rng, max_nest=3):
    g = LeafGen(rng, max_nest)
    ir = g.form(0)
    return ir, g


def leaves_of(j):
    """Names v<digits> occurring as symbols in the tree (all are in evaluated
    positions by construction of `LeafGen`)."""
    out = []
    for n, _ in walk(j):
        if n["t"] == "Sym" and n["v"][:1] == "v" and n["v"][1:].isdigit():
            out.append(n["v"])
    return out
