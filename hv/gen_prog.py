"""Program IR for the core expression language (DESIGN 6.1-6.3).

* `gen_program(rng, cfg)`   -> IR (JSON-able dict tree) with effect typing
* `render(node)`            -> Hy source text
* `Interp(...).run(prog)`   -> reference result: value / escaping exception /
                               series-parallel trace structure / final vars
* `accepts(struct, events)` -> is the observed flat trace a linearisation?

The generator puts statement-producing forms in every expression slot, subject
to one soundness rule: children of a form whose evaluation order Hy leaves
unspecified (call arguments, collection elements, operator operands, get/cut
arguments) are effect-disjoint apart from logging, and a child that may jump
(raise/return/break/continue escaping it) requires effect-free siblings.
"""
import itertools

# ---------------------------------------------------------------------------
# harness objects visible to generated programs


class EA(Exception):
    pass


class EB(Exception):
    pass


EXC = {"A": EA, "B": EB}


class CM:
    """Context manager that logs enter/exit through the trace logger."""

    def __init__(self, tr, k, suppress=False):
        self.tr, self.k, self.suppress = tr, k, suppress

    def __enter__(self):
        self.tr.L(f"{self.k}:enter", None)
        return self.k

    def __exit__(self, et, ev, tb):
        self.tr.L(f"{self.k}:exit", None if et is None else et.__name__)
        return self.suppress and et is not None and issubclass(et, Exception)


def SUM(x):
    if isinstance(x, dict):
        return SUM(list(x.keys())) + SUM(list(x.values()))
    return sum(v for v in x if isinstance(v, int))


def make_env(tr):
    from hy.reader.mangling import mangle

    def F(k, *args, **kw):
        tr.L(f"F{k}", None)
        return sum(a for a in list(args) + list(kw.values()) if isinstance(a, int))

    env = {"L": tr.L, "F": F, mangle("if*"): F, "SUM": SUM, "EA": EA, "EB": EB,
           "CM": lambda k: CM(tr, k), "CMS": lambda k: CM(tr, k, True)}
    return env


# ---------------------------------------------------------------------------
# effects

def eff(r=(), w=(), log=False, j=()):
    return {"r": set(r), "w": set(w), "log": log, "j": set(j)}


def eff_join(*es):
    out = eff()
    for e in es:
        out["r"] |= e["r"]
        out["w"] |= e["w"]
        out["log"] = out["log"] or e["log"]
        out["j"] |= e["j"]
    return out


def par_conflict(acc, e):
    if e["w"] & (acc["r"] | acc["w"]) or e["r"] & acc["w"]:
        return True
    if e["j"] and (acc["log"] or acc["w"] or acc["j"]):
        return True
    if acc["j"] and (e["log"] or e["w"] or e["j"]):
        return True
    return False


# ---------------------------------------------------------------------------
# generator

class Gen:
    def __init__(self, rng, max_depth=5, max_nodes=60, nvars=4, callee_ifstar=True):
        self.rng = rng
        self.max_depth = max_depth
        self.budget = max_nodes
        self.vars = [f"v{i}" for i in range(nvars)]
        self.ids = itertools.count(1)
        self.tmp = itertools.count()
        self.fnid = itertools.count()
        self.callee_ifstar = callee_ifstar
        # dynamic generation context
        self.scope_vars = list(self.vars)     # int-valued variables readable here
        self.assignable = list(self.vars)     # variables this function level may assign
        self.fns = []                         # callable function names in scope: (name, nparams, ndefaults, eff)
        self.in_fn = 0
        self.in_loop = 0
        self.no_jump_cross = 0                # inside comprehension body: no break/continue/return
        self.uncertain = 0                    # inside a branch that may not run: definitions are not callable later
        self.in_comp_iter = 0                 # inside a comprehension iterable: no assignment expression (PEP 572)
        self.anyvars = ["a0", "a1"]           # module-level variables holding an int or None

    def k(self):
        return next(self.ids)

    # -- helpers
    def lit(self):
        return {"op": "lit", "v": self.rng.randint(-3, 9)}, eff()

    def var(self):
        n = self.rng.choice(self.scope_vars)
        return {"op": "var", "n": n}, eff(r=[n])

    def leaf(self):
        return self.var() if self.rng.random() < 0.5 else self.lit()

    def logged(self, sub):
        node, e = sub
        return {"op": "L", "k": self.k(), "e": node}, eff_join(e, eff(log=True))

    def stmt_wrap(self, sub):
        """(do (setv tN e) (L k tN)) - the standard statement-producing wrapper."""
        node, e = sub
        t = f"t{next(self.tmp)}"
        return ({"op": "do", "b": [{"op": "setv", "ps": [[t, node]]},
                                   {"op": "L", "k": self.k(), "e": {"op": "var", "n": t}}]},
                eff_join(e, eff(log=True, w=[t])))

    def par(self, makers):
        """Generate Par children under the disjointness rule."""
        acc = eff()
        out = []
        for mk in makers:
            nf = len(self.fns)
            for attempt in range(4):
                node, e = mk()
                if not par_conflict(acc, e):
                    break
                del self.fns[nf:]     # a discarded candidate's definitions do not exist
            else:
                node, e = self.lit()
            out.append(node)
            acc = eff_join(acc, e)
        return out, acc

    def seq(self, makers):
        out, acc = [], eff()
        nf = len(self.fns)       # functions defined in this sequence are callable only
        try:                      # by later siblings of the same sequence
            for mk in makers:
                node, e = mk()
                out.append(node)
                acc = eff_join(acc, e)
        finally:
            del self.fns[nf:]
        return out, acc

    # -- int-typed expressions
    def int_expr(self, d):
        rng = self.rng
        self.budget -= 1
        if d >= self.max_depth or self.budget <= 0:
            sub = self.leaf()
            return self.logged(sub) if rng.random() < 0.5 else sub
        choices = [
            ("leaf", 2), ("L", 4), ("stmtwrap", 4), ("bin", 3), ("F", 3), ("if", 3),
            ("do", 2), ("andor", 2), ("setx", 1 if self.assignable and not self.in_comp_iter else 0), ("let", 2), ("callfn", 2), ("cmp", 1),
            ("get", 1), ("sum", 2), ("with", 2), ("try", 2), ("cond", 1), ("not", 1),
            ("raise", 1), ("fncall_stored", 1 if self.fns else 0),
            ("return", 1 if self.in_fn and not self.no_jump_cross else 0),
        ]
        kind = rng.choices([c for c, _ in choices], [w for _, w in choices])[0]
        D = d + 1
        if kind == "leaf":
            return self.leaf()
        if kind == "L":
            return self.logged(self.int_expr(D))
        if kind == "stmtwrap":
            return self.stmt_wrap(self.int_expr(D))
        if kind == "bin":
            o = rng.choice(["+", "-", "*"])
            n = rng.randint(2, 3)
            xs, e = self.par([lambda: self.int_expr(D)] * n)
            return {"op": "bin", "o": o, "xs": xs}, e
        if kind == "cmp":
            xs, e = self.par([lambda: self.int_expr(D)] * 2)
            return {"op": "cmp", "o": rng.choice(["<", "<=", "=", "!=", ">"]), "a": xs[0], "b": xs[1]}, e
        if kind == "not":
            n, e = self.any_expr(D)
            return {"op": "not", "e": n}, e
        if kind == "F":
            n = rng.randint(0, 3)
            xs, e = self.par([lambda: self.int_expr(D)] * n)
            kw = []
            if rng.random() < 0.25:
                nf = len(self.fns)
                kwn, e2 = self.par([lambda: self.int_expr(D)])
                if not par_conflict(e, e2):
                    kw = [["kw", kwn[0]]]
                    e = eff_join(e, e2)
                else:
                    del self.fns[nf:]
            nm = "if*" if (self.callee_ifstar and n == 2 and not kw and rng.random() < 0.3) else "F"
            return {"op": "F", "nm": nm, "k": self.k(), "args": xs, "kw": kw}, eff_join(e, eff(log=True))
        if kind == "if":
            c, ec = self.any_expr(D)
            self.uncertain += 1      # a function defined in a branch may never be defined
            try:
                a, ea = self.int_expr(D)
                if self.callee_ifstar and rng.random() < 0.12:
                    # else-branch that is a call of a user function with a reserved-looking name
                    xs, eb = self.par([lambda: self.int_expr(D)] * 2)
                    b = {"op": "F", "nm": "if*", "k": self.k(), "args": xs, "kw": []}
                    eb = eff_join(eb, eff(log=True))
                else:
                    b, eb = self.int_expr(D)
            finally:
                self.uncertain -= 1
            return {"op": "if", "c": c, "a": a, "b": b}, eff_join(ec, ea, eb)
        if kind == "cond":
            n = rng.randint(1, 3)
            cl, es = [], []
            for k in range(n):
                # a function defined in a later test or in any result may never be defined
                self.uncertain += 1 if k else 0
                c, ec = self.any_expr(D)
                self.uncertain += 0 if k else 1
                r, er = self.int_expr(D)
                self.uncertain -= 1
                cl.append([c, r])
                es += [ec, er]
            self.uncertain += 1
            r, er = self.int_expr(D)
            self.uncertain -= 1
            cl.append([{"op": "true"}, r])
            return {"op": "cond", "cl": cl}, eff_join(er, *es)
        if kind == "do":
            n = rng.randint(0, 2)
            b, e = self.seq([lambda: self.stmt_form(D)] * n + [lambda: self.int_expr(D)])
            return {"op": "do", "b": b}, e
        if kind == "andor":
            n = rng.randint(1, 3)
            xs, e = self.seq([lambda: self.int_expr(D)] * n)
            return {"op": rng.choice(["and", "or"]), "xs": xs}, e
        if kind == "setx":
            # prefer let-bound targets and values whose result temporary the compiler may
            # rename to the target (Result.rename): if / try / and-or with statements
            lets = [a for a in self.assignable if a.startswith("l")]
            name = rng.choice(lets) if lets and rng.random() < 0.6 else rng.choice(self.assignable)
            n, e = self.renamable_value(D) if rng.random() < 0.6 else self.int_expr(D)
            return {"op": "setx", "n": name, "e": n}, eff_join(e, eff(w=[name]))
        if kind == "let":
            return self.let_form(D, "int")
        if kind == "callfn":
            return self.fn_apply(D)
        if kind == "fncall_stored":
            return self.call_stored(D)
        if kind == "get":
            n = rng.randint(1, 3)
            xs, e = self.par([lambda: self.int_expr(D)] * n)
            idx, ei = self.index_expr(n)
            if par_conflict(e, ei):
                idx, ei = {"op": "lit", "v": 0}, eff()      # always in range
            seqkind = rng.choice(["list", "tuple"])
            return {"op": "get", "o": {"op": seqkind, "xs": xs}, "i": idx}, eff_join(e, ei)
        if kind == "sum":
            n, e = self.coll_expr(D)
            return {"op": "sum", "e": n}, e
        if kind == "with":
            return self.with_form(D, "int")
        if kind == "try":
            return self.try_form(D, "int")
        if kind == "raise":
            x = rng.choice(["A", "B"])
            return {"op": "raise", "x": x, "k": self.k()}, eff(j=["raise:" + x])
        if kind == "return":
            n, e = self.int_expr(D)
            return {"op": "return", "e": n}, eff_join(e, eff(j=["return"]))
        raise AssertionError(kind)

    def renamable_value(self, d):
        """An int-typed form that compiles to statements plus a result temporary."""
        self.uncertain += 1       # its branches may not run: definitions inside are not callable later
        try:
            return self._renamable_value(d)
        finally:
            self.uncertain -= 1

    def _renamable_value(self, d):
        rng = self.rng
        k = rng.choice(["if", "try", "andor", "cond"])
        D = d + 1
        if k == "if":
            c, ec = self.any_expr(D)
            a, ea = self.stmt_wrap(self.int_expr(D))
            b, eb = self.int_expr(D)
            if rng.random() < 0.5:
                a, ea, b, eb = b, eb, a, ea
            return {"op": "if", "c": c, "a": a, "b": b}, eff_join(ec, ea, eb)
        if k == "try":
            return self.try_form(d, "int")
        if k == "cond":
            c, ec = self.any_expr(D)
            r, er = self.stmt_wrap(self.int_expr(D))
            r2, er2 = self.int_expr(D)
            return {"op": "cond", "cl": [[c, r], [{"op": "true"}, r2]]}, eff_join(ec, er, er2)
        xs, e = self.seq([lambda: self.int_expr(D), lambda: self.stmt_wrap(self.int_expr(D))]
                         + [lambda: self.int_expr(D)] * rng.randint(0, 1))
        return {"op": rng.choice(["and", "or"]), "xs": xs}, e

    # -- variables a0/a1 hold an int or None: the targets of (setv aK (when ...)) and friends
    def any_ok(self):
        return self.in_fn == 0 and bool(self.assignable) and not self.in_comp_iter and not self.no_jump_cross

    def anyvar_read(self, name=None):
        name = name or self.rng.choice(self.anyvars)
        sub = ({"op": "var", "n": name}, eff(r=[name]))
        return self.logged(sub) if self.rng.random() < 0.6 else sub

    def anyvar_int(self, name):
        """(or aK lit): an int-typed read of an any-typed variable"""
        node, e = self.anyvar_read(name)
        return {"op": "or", "xs": [node, {"op": "lit", "v": self.rng.randint(1, 9)}]}, e

    def setany(self, d):
        """(setv aK V): V is a `when`, an `if` whose else is None or a `cond` without fallback,
        whose taken branch compiles to statements and whose test or body may read aK itself:
        the value must be computed from the old aK and aK is None when no branch is taken."""
        rng = self.rng
        name = rng.choice(self.anyvars)
        D = d + 1
        self.uncertain += 1
        try:
            r = rng.random()
            if r < 0.45:
                c, ec = self.anyvar_read(name)
            elif r < 0.6:
                a, ea = self.anyvar_int(name)
                b, eb = self.int_expr(D)
                c, ec = {"op": "cmp", "o": rng.choice(["<", "<=", "=", "!=", ">"]), "a": a, "b": b}, eff_join(ea, eb)
                if par_conflict(ea, eb):
                    c, ec = a, ea      # (b is dropped; under `uncertain` it registered no function)
            else:
                c, ec = self.any_expr(D)
            r = rng.random()
            if r < 0.35:
                last = lambda: self.anyvar_int(name)
            elif r < 0.5:
                def last():
                    xs, e = self.par([lambda: self.anyvar_int(name), lambda: self.int_expr(D)])
                    return {"op": "bin", "o": rng.choice(["+", "-", "*"]), "xs": xs}, e
            elif r < 0.6:
                last = lambda: self.anyvar_read(name)
            else:
                last = lambda: self.int_expr(D)
            pre = [lambda: self.stmt_wrap(self.int_expr(D))] if rng.random() < 0.8 else []
            if rng.random() < 0.3:
                pre.append(lambda: self.stmt_form(D))
            b, eb = self.seq(pre + [last])
            shape = rng.choice(["when", "when", "if", "if-swapped", "cond"])
            if shape == "when":
                v = {"op": "when", "c": c, "b": b}
            elif shape == "if":
                v = {"op": "if", "c": c, "a": {"op": "do", "b": b}, "b": {"op": "none"}}
            elif shape == "if-swapped":
                v = {"op": "if", "c": c, "a": {"op": "none"}, "b": {"op": "do", "b": b}}
            else:
                cl = [[c, {"op": "do", "b": b}]]
                e2 = eff()
                if rng.random() < 0.5:
                    c2, ec2 = self.any_expr(D)
                    r2, er2 = self.stmt_wrap(self.int_expr(D))
                    cl.append([c2, r2])
                    e2 = eff_join(ec2, er2)
                v = {"op": "cond", "cl": cl}
                eb = eff_join(eb, e2)
        finally:
            self.uncertain -= 1
        return {"op": "setv", "ps": [[name, v]]}, eff_join(ec, eb, eff(w=[name]))

    def index_expr(self, n):
        i = self.rng.randrange(n)
        node = {"op": "lit", "v": i if self.rng.random() < 0.7 else i - n}
        if self.rng.random() < 0.4:
            return self.logged((node, eff()))
        return node, eff()

    # -- any-typed expressions (value may be None / bool / int / collection)
    def any_expr(self, d):
        rng = self.rng
        if d >= self.max_depth or self.budget <= 0 or rng.random() < 0.5:
            return self.int_expr(d)
        self.budget -= 1
        D = d + 1
        kind = rng.choice(["when", "stmt", "andor0", "coll", "lit", "withany", "anyvar"])
        if kind == "anyvar":
            return self.anyvar_read()
        if kind == "withany":
            return self.with_form(D, "any")
        if kind == "when":
            c, ec = self.any_expr(D)
            b, eb = self.seq([lambda: self.stmt_form(D)] * rng.randint(0, 1) + [lambda: self.int_expr(D)])
            return {"op": "when", "c": c, "b": b}, eff_join(ec, eb)
        if kind == "stmt":
            return self.stmt_form(D)
        if kind == "andor0":
            return {"op": rng.choice(["and", "or"]), "xs": []}, eff()
        if kind == "coll":
            return self.coll_expr(D)
        return {"op": rng.choice(["none", "true", "false"])}, eff()

    # -- collection-typed expressions
    def coll_expr(self, d):
        rng = self.rng
        self.budget -= 1
        D = d + 1
        kind = rng.choice(["list", "tuple", "set", "dict", "cut", "lfor", "lfor", "sfor", "dfor", "gfor"])
        if d >= self.max_depth or self.budget <= 0:
            kind = "list"
        if kind in ("list", "tuple", "set"):
            n = rng.randint(0, 3)
            xs, e = self.par([lambda: self.int_expr(D)] * n)
            return {"op": kind, "xs": xs}, e
        if kind == "dict":
            n = rng.randint(0, 2)
            keys = rng.sample(range(10, 20), n)
            mk = []
            for kk in keys:
                mk.append(lambda kk=kk: (self.logged(({"op": "lit", "v": kk}, eff()))
                                         if rng.random() < 0.3 else ({"op": "lit", "v": kk}, eff())))
                mk.append(lambda: self.int_expr(D))
            xs, e = self.par(mk)
            return {"op": "dict", "xs": xs}, e
        if kind == "cut":
            mk = [lambda: self.coll_list(D), lambda: self.small_int(D), lambda: self.small_int(D)]
            xs, e = self.par(mk[: rng.randint(2, 3)])
            return {"op": "cut", "o": xs[0], "ix": xs[1:]}, e
        return self.comp_form(D, kind)

    def coll_list(self, d):
        n = self.rng.randint(0, 3)
        xs, e = self.par([lambda: self.int_expr(d + 1)] * n)
        return {"op": "list", "xs": xs}, e

    def small_int(self, d):
        node = {"op": "lit", "v": self.rng.randint(-2, 3)}
        r = self.rng.random()
        if r < 0.3:
            return self.logged((node, eff()))
        if r < 0.45:
            return self.stmt_wrap((node, eff()))
        return node, eff()

    def iterable(self, d):
        if self.rng.random() < 0.3:
            n, e = self.small_int(d)
            return {"op": "range", "n": n}, e
        return self.coll_list(d)

    def comp_form(self, d, kind):
        rng = self.rng
        x = f"c{next(self.tmp)}"
        saved_assignable = self.assignable
        self.assignable = []        # PEP 572: no assignment expression in a comprehension iterable
        self.in_comp_iter += 1      # ... not even inside a function nested in it
        try:
            it, eit = self.iterable(d)
        finally:
            self.assignable = saved_assignable
            self.in_comp_iter -= 1
        saved = (list(self.scope_vars), list(self.assignable), self.in_loop)
        self.scope_vars.append(x)
        self.assignable = []        # no setx/setv to outer names inside comprehension (C04's subject)
        self.no_jump_cross += 1
        self.uncertain += 1
        self.in_loop = 0
        try:
            cond = None
            ec = eff()
            if rng.random() < 0.4:
                cond, ec = self.int_expr(d + 1)
            if kind == "dfor":
                (key, elt), ee = self.par([lambda: self.int_expr(d + 1)] * 2)
                node = {"op": kind, "x": x, "it": it, "if": cond, "e": elt, "k": key}
            else:
                elt, ee = self.int_expr(d + 1)
                node = {"op": kind, "x": x, "it": it, "if": cond, "e": elt}
        finally:
            self.scope_vars, self.assignable, self.in_loop = saved
            self.no_jump_cross -= 1
            self.uncertain -= 1
        e = eff_join(eit, ec, ee)
        e["r"].discard(x)
        # temporaries assigned inside the body are private to the comprehension's scope
        # (or leak as unread temporaries); raise may still escape.
        e["j"] = {j for j in e["j"] if j.startswith("raise")}
        return node, e

    # -- statement-ish forms (value None)
    def stmt_form(self, d):
        rng = self.rng
        self.budget -= 1
        D = d + 1
        if d >= self.max_depth or self.budget <= 0:
            name = rng.choice(self.assignable) if self.assignable else None
            if name is None:
                return self.logged(self.leaf())
            n, e = self.leaf()
            return {"op": "setv", "ps": [[name, n]]}, eff_join(e, eff(w=[name]))
        opts = [("setv", 4 if self.assignable else 0), ("while", 2), ("for", 2), ("defn", 1),
                ("break", 2 if self.in_loop and not self.no_jump_cross else 0),
                ("continue", 1 if self.in_loop and not self.no_jump_cross else 0),
                ("expr", 2), ("setfn", 1 if self.assignable else 0),
                ("setany", 1 if self.any_ok() else 0)]
        kind = rng.choices([c for c, _ in opts], [w for _, w in opts])[0]
        if kind == "setany":
            return self.setany(D)
        if kind == "setv":
            n = rng.randint(1, 2)
            ps, es = [], []
            for _ in range(n):
                name = rng.choice(self.assignable)
                v, e = self.renamable_value(D) if rng.random() < 0.25 else self.int_expr(D)
                ps.append([name, v])
                es.append(eff_join(e, eff(w=[name])))
            return {"op": "setv", "ps": ps}, eff_join(*es)
        if kind == "expr":
            return self.int_expr(D)
        if kind == "break":
            return self.guarded_jump(D, "break")
        if kind == "continue":
            return self.guarded_jump(D, "continue")
        if kind == "while":
            return self.while_form(D)
        if kind == "for":
            return self.for_form(D)
        if kind in ("defn", "setfn"):
            node, e = self.def_fn(D, kind)
            if kind == "defn" and rng.random() < 0.3:
                # (setv uN (defn f ...)): defn is documented to return None and must still bind f
                u = f"u{next(self.tmp)}"
                return {"op": "setv", "ps": [[u, node]]}, eff_join(e, eff(w=[u]))
            return node, e
        raise AssertionError(kind)

    def guarded_jump(self, d, what):
        if self.rng.random() < 0.7:
            c, ec = self.int_expr(d)
            return ({"op": "when", "c": c, "b": [{"op": what}]}, eff_join(ec, eff(j=[what])))
        return {"op": what}, eff(j=[what])

    def while_form(self, d):
        rng = self.rng
        w = f"w{next(self.tmp)}"
        limit = rng.randint(0, 3)
        ctest = {"op": "cmp", "o": "<", "a": {"op": "var", "n": w}, "b": {"op": "lit", "v": limit}}
        r = rng.random()
        if r < 0.35:
            cond, ec = self.logged((ctest, eff(r=[w])))
        elif r < 0.7:
            cond, ec = self.stmt_wrap((ctest, eff(r=[w])))
        else:
            cond, ec = ctest, eff(r=[w])
        self.in_loop += 1
        try:
            body, eb = self.seq([lambda: self.stmt_form(d)] * rng.randint(1, 3))
        finally:
            self.in_loop -= 1
        els, ee = None, eff()
        if rng.random() < 0.4:
            els, ee = self.seq([lambda: self.stmt_form(d)] * rng.randint(1, 2))
        e = eff_join(ec, eb, ee, eff(w=[w]))
        e["j"] -= {"break", "continue"}
        e["j"] |= {j for j in ee["j"] if j in ("break", "continue")}
        return {"op": "while", "w": w, "c": cond, "b": body, "else": els}, e

    def for_form(self, d):
        rng = self.rng
        x = f"i{next(self.tmp)}"
        it, eit = self.iterable(d)
        cond, ec = None, eff()
        self.scope_vars.append(x)
        try:
            self.in_loop += 1      # the :if clause runs inside the loop: break/continue there aim at it
            try:
                if rng.random() < 0.3:
                    cond, ec = self.int_expr(d + 1)
                body, eb = self.seq([lambda: self.stmt_form(d)] * rng.randint(1, 3))
            finally:
                self.in_loop -= 1
        finally:
            self.scope_vars.remove(x)     # unbound in `else` if the iterable was empty
        els, ee = None, eff()
        if rng.random() < 0.4:
            els, ee = self.seq([lambda: self.stmt_form(d)] * rng.randint(1, 2))
        e = eff_join(eit, ec, eb, ee, eff(w=[x]))
        e["j"] -= {"break", "continue"}
        e["j"] |= {j for j in ee["j"] if j in ("break", "continue")}
        return {"op": "for", "x": x, "it": it, "if": cond, "b": body, "else": els}, e

    def let_form(self, d, want):
        rng = self.rng
        n = rng.randint(1, 2)
        names = [f"l{next(self.tmp)}" for _ in range(n)]
        bs, es = [], []
        saved = (list(self.scope_vars), list(self.assignable))
        try:
            for nm in names:
                v, e = self.int_expr(d)
                bs.append([nm, v])
                es.append(e)
                self.scope_vars.append(nm)
                self.assignable.append(nm)
            body, eb = self.seq([lambda: self.stmt_form(d)] * rng.randint(0, 1) + [lambda: self.int_expr(d)])
        finally:
            self.scope_vars, self.assignable = saved
        e = eff_join(eb, *es)
        e["r"] -= set(names)
        e["w"] -= set(names)
        return {"op": "let", "bs": bs, "b": body}, e

    def fn_body(self, d, params):
        """Generate a function body; returns (body nodes, call effect)."""
        rng = self.rng
        saved = (list(self.scope_vars), list(self.assignable), self.in_fn, self.in_loop,
                 self.no_jump_cross)
        locs = [f"p{next(self.tmp)}" for _ in range(rng.randint(0, 1))]
        self.scope_vars = self.scope_vars + params      # locals readable only after assignment
        self.assignable = list(params)
        self.in_fn += 1
        self.in_loop = 0
        self.no_jump_cross = 0
        try:
            mk = []
            for lc in locs:
                def mkloc(lc=lc):
                    v, e = self.int_expr(d)
                    self.scope_vars.append(lc)
                    self.assignable.append(lc)
                    return {"op": "setv", "ps": [[lc, v]]}, eff_join(e, eff(w=[lc]))
                mk.append(mkloc)
            mk += [lambda: self.stmt_form(d)] * rng.randint(0, 1) + [lambda: self.int_expr(d)]
            body, e = self.seq(mk)
        finally:
            (self.scope_vars, self.assignable, self.in_fn, self.in_loop, self.no_jump_cross) = saved
        e = dict(e)
        e["r"] = e["r"] - set(params) - set(locs)
        e["w"] = e["w"] - set(params) - set(locs)
        e["j"] = {j for j in e["j"] if j.startswith("raise")}
        return body, e

    def params(self):
        n = self.rng.randint(0, 3)
        ps = [f"p{next(self.tmp)}" for _ in range(n)]
        ndef = self.rng.randint(0, n) if self.rng.random() < 0.4 else 0
        defs = [{"op": "lit", "v": self.rng.randint(0, 5)} for _ in range(ndef)]
        return ps, defs

    def fn_apply(self, d):
        """((fn [params] body) args)"""
        ps, defs = self.params()
        body, ecall = self.fn_body(d, ps)
        nargs = self.rng.randint(len(ps) - len(defs), len(ps))
        nf = len(self.fns)
        args, ea = self.par([lambda: self.int_expr(d)] * nargs)
        if par_conflict(ea, ecall) and ecall["j"]:
            args = [{"op": "lit", "v": 1} for _ in args]
            ea = eff()
            del self.fns[nf:]
        return ({"op": "call", "f": {"op": "fn", "ps": ps, "defs": defs, "b": body}, "args": args},
                eff_join(ea, ecall))

    def def_fn(self, d, kind):
        name = f"f{next(self.fnid)}"
        ps, defs = self.params()
        body, ecall = self.fn_body(d, ps)
        if not self.uncertain:
            self.fns.append((name, len(ps), len(defs), ecall))
        node = {"op": kind, "n": name, "ps": ps, "defs": defs, "b": body}
        return node, eff(w=[name])

    def call_stored(self, d):
        name, np_, nd, ecall = self.rng.choice(self.fns)
        nargs = self.rng.randint(np_ - nd, np_)
        nf = len(self.fns)
        args, ea = self.par([lambda: self.int_expr(d)] * nargs)
        if par_conflict(ea, ecall) and ecall["j"]:
            args = [{"op": "lit", "v": 1} for _ in args]
            ea = eff()
            del self.fns[nf:]
        return ({"op": "call", "f": {"op": "var", "n": name}, "args": args},
                eff_join(ea, ecall, eff(r=[name])))

    def with_form(self, d, want):
        rng = self.rng
        n = rng.randint(1, 2)
        ms, es = [], []
        bound = []
        for i in range(n):
            k = self.k()
            var = f"m{next(self.tmp)}" if rng.random() < 0.6 else None
            shape = rng.choice(["plain", "plain", "stmt"] + (["supp"] if want == "any" else []))
            ms.append([var, k, shape])
            es.append(eff(log=True, w=([var] if var else []) + ([f"tm{k}"] if shape == "stmt" else [])))
            if var:
                bound.append(var)
        self.scope_vars += bound
        try:
            body, eb = self.seq([lambda: self.stmt_form(d)] * rng.randint(0, 1) + [lambda: self.int_expr(d)])
        finally:
            for b in bound:
                self.scope_vars.remove(b)
        e = eff_join(eb, *es)
        if any(m[2] == "supp" for m in ms):
            e["j"] = {j for j in e["j"] if not j.startswith("raise")}
        return {"op": "with", "ms": ms, "b": body}, e

    def try_form(self, d, want):
        rng = self.rng
        body, eb = self.seq([lambda: self.stmt_form(d)] * rng.randint(0, 1) + [lambda: self.int_expr(d)])
        hs, es = [], []
        caught = set()
        for _ in range(rng.randint(0, 2)):
            kinds = rng.choice([["A"], ["B"], ["A", "B"], None])
            var = f"e{next(self.tmp)}" if (kinds and rng.random() < 0.4) else None
            hb, eh = self.seq([lambda: self.stmt_form(d)] * rng.randint(0, 1) + [lambda: self.int_expr(d)])
            hs.append([kinds, var, hb, rng.random() < 0.5])
            es.append(eh)
            caught |= set(kinds) if kinds else {"A", "B"}
            if kinds is None:
                break           # a catch-all handler must be last
        els, ee = None, eff()
        if rng.random() < 0.35:
            els, ee = self.seq([lambda: self.stmt_form(d)] * rng.randint(0, 1) + [lambda: self.int_expr(d)])
        fin, ef = None, eff()
        if rng.random() < 0.45 or not hs:
            fin, ef = self.seq([lambda: self.stmt_form(d)] * rng.randint(1, 2))
        ebody = dict(eb)
        ebody["j"] = {j for j in eb["j"] if not (j.startswith("raise:") and j[6:] in caught)}
        e = eff_join(ebody, ee, ef, *es)
        return {"op": "try", "b": body, "hs": hs, "else": els, "fin": fin}, e


def gen_program(rng, max_depth=5, max_nodes=60):
    g = Gen(rng, max_depth=max_depth, max_nodes=max_nodes)
    n = rng.randint(0, 3)
    forms = []
    nany = rng.choice([0, 0, 0, 0, 0, 1, 2])
    kinds = ["stmt"] * n + ["any"] * nany
    rng.shuffle(kinds)
    for kd in kinds:           # generated in program order: a form may call the functions defined before it
        forms.append(g.stmt_form(1)[0] if kd == "stmt" else g.setany(1)[0])
    r = rng.random()
    if r < 0.75:
        last = g.int_expr(1)[0]
    elif r < 0.9:
        last = g.any_expr(1)[0]
    else:
        last = g.coll_expr(1)[0]
    init = [[v, rng.randint(0, 5)] for v in g.vars] + [[v, rng.randint(0, 3)] for v in g.anyvars]
    return {"init": init, "forms": forms, "last": last}


# ---------------------------------------------------------------------------
# renderer

def R(n):
    op = n["op"]
    if op == "lit":
        return str(n["v"])
    if op == "var":
        return n["n"]
    if op in ("none", "true", "false"):
        return {"none": "None", "true": "True", "false": "False"}[op]
    if op == "L":
        return f"(L {n['k']} {R(n['e'])})"
    if op == "do":
        return "(do" + "".join(" " + R(x) for x in n["b"]) + ")"
    if op == "if":
        return f"(if {R(n['c'])} {R(n['a'])} {R(n['b'])})"
    if op == "when":
        return f"(when {R(n['c'])}" + "".join(" " + R(x) for x in n["b"]) + ")"
    if op == "cond":
        return "(cond" + "".join(f" {R(c)} {R(r)}" for c, r in n["cl"]) + ")"
    if op in ("and", "or"):
        return f"({op}" + "".join(" " + R(x) for x in n["xs"]) + ")"
    if op == "not":
        return f"(not {R(n['e'])})"
    if op == "setv":
        return "(setv" + "".join(f" {a} {R(v)}" for a, v in n["ps"]) + ")"
    if op == "setx":
        return f"(setx {n['n']} {R(n['e'])})"
    if op == "let":
        return ("(let [" + " ".join(f"{a} {R(v)}" for a, v in n["bs"]) + "]"
                + "".join(" " + R(x) for x in n["b"]) + ")")
    if op in ("fn", "defn", "setfn"):
        nd = len(n["defs"])
        ps = n["ps"]
        plain = ps[: len(ps) - nd]
        withd = ps[len(ps) - nd:]
        pl = " ".join(plain + [f"[{p} {R(dv)}]" for p, dv in zip(withd, n["defs"])])
        body = "".join(" " + R(x) for x in n["b"])
        if op == "fn":
            return f"(fn [{pl}]{body})"
        if op == "defn":
            return f"(defn {n['n']} [{pl}]{body})"
        return f"(setv {n['n']} (fn [{pl}]{body}))"
    if op == "call":
        return "(" + R(n["f"]) + "".join(" " + R(a) for a in n["args"]) + ")"
    if op == "F":
        return (f"({n['nm']} {n['k']}" + "".join(" " + R(a) for a in n["args"])
                + "".join(f" :{kn} {R(v)}" for kn, v in n["kw"]) + ")")
    if op == "bin":
        return f"({n['o']}" + "".join(" " + R(x) for x in n["xs"]) + ")"
    if op == "cmp":
        return f"({n['o']} {R(n['a'])} {R(n['b'])})"
    if op == "list":
        return "[" + " ".join(R(x) for x in n["xs"]) + "]"
    if op == "tuple":
        return "#(" + " ".join(R(x) for x in n["xs"]) + ")"
    if op == "set":
        return "#{" + " ".join(R(x) for x in n["xs"]) + "}"
    if op == "dict":
        return "{" + " ".join(R(x) for x in n["xs"]) + "}"
    if op == "range":
        return f"(range {R(n['n'])})"
    if op == "get":
        return f"(get {R(n['o'])} {R(n['i'])})"
    if op == "cut":
        return f"(cut {R(n['o'])}" + "".join(" " + R(x) for x in n["ix"]) + ")"
    if op == "sum":
        return f"(SUM {R(n['e'])})"
    if op in ("lfor", "sfor", "gfor", "dfor"):
        cl = f"{n['x']} {R(n['it'])}" + (f" :if {R(n['if'])}" if n["if"] else "")
        if op == "dfor":
            return f"(dfor {cl} {R(n['k'])} {R(n['e'])})"
        s = f"({op} {cl} {R(n['e'])})"
        return f"(list {s})" if op == "gfor" else s
    if op == "while":
        body = "".join(" " + R(x) for x in n["b"])
        els = ("" if n["else"] is None else " (else" + "".join(" " + R(x) for x in n["else"]) + ")")
        w = n["w"]
        return f"(do (setv {w} 0) (while {R(n['c'])} (setv {w} (+ {w} 1)){body}{els}))"
    if op == "for":
        cl = f"{n['x']} {R(n['it'])}" + (f" :if {R(n['if'])}" if n["if"] else "")
        body = "".join(" " + R(x) for x in n["b"])
        els = ("" if n["else"] is None else " (else" + "".join(" " + R(x) for x in n["else"]) + ")")
        return f"(for [{cl}]{body}{els})"
    if op == "with":
        items = []
        for var, k, shape in n["ms"]:
            ctor = {"plain": f"(CM {k})", "supp": f"(CMS {k})",
                    "stmt": f"(do (setv tm{k} {k}) (CM tm{k}))"}[shape]
            items.append(f"{var or '_'} {ctor}")
        return "(with [" + " ".join(items) + "]" + "".join(" " + R(x) for x in n["b"]) + ")"
    if op == "try":
        s = "(try" + "".join(" " + R(x) for x in n["b"])
        for kinds, var, hb, aslist in n["hs"]:
            if kinds is None:
                spec = "[]"
            else:
                names = ["E" + x for x in kinds]
                ty = names[0] if (len(names) == 1 and not aslist) else "[" + " ".join(names) + "]"
                spec = f"[{var} {ty}]" if var else f"[{ty}]"
            s += f" (except {spec}" + "".join(" " + R(x) for x in hb) + ")"
        if n["else"] is not None:
            s += " (else" + "".join(" " + R(x) for x in n["else"]) + ")"
        if n["fin"] is not None:
            s += " (finally" + "".join(" " + R(x) for x in n["fin"]) + ")"
        return s + ")"
    if op == "raise":
        return f"(raise (E{n['x']} {n['k']}))"
    if op == "return":
        return f"(return {R(n['e'])})"
    if op in ("break", "continue"):
        return f"({op})"
    raise AssertionError(op)


def render_program(prog, mode="module", use_result=True):
    """mode 'module': forms at module level; 'fn': everything inside ((fn [] ...)).
    The program leaves RESULT (value of the last form, when use_result) and FINAL
    (list of the final values of v0..vN)."""
    init = "(setv " + " ".join(f"{v} {x}" for v, x in prog["init"]) + ")"
    forms = [R(f) for f in prog["forms"]]
    last = R(prog["last"])
    vs = " ".join(v for v, _ in prog["init"])
    if mode == "module":
        lines = [init] + forms
        lines.append(f"(setv RESULT {last})" if use_result else f"{last}\n(setv RESULT None)")
        lines.append(f"(setv FINAL [{vs}])")
        return "\n".join(lines)
    body = [init] + forms
    if use_result:
        body.append(f"(setv _r {last})")
        body.append(f"[_r [{vs}]]")
    else:
        body.append(last)
        body.append(f"[None [{vs}]]")
    return "(setv [RESULT FINAL] ((fn []\n  " + "\n  ".join(body) + ")))"


# ---------------------------------------------------------------------------
# reference interpreter (big-step, no compilation)

class Jump(Exception):
    def __init__(self, kind, value=None):
        self.kind, self.value = kind, value


class Budget(Exception):
    pass


class Closure:
    def __init__(self, node, env):
        self.node, self.env = node, env


class Env:
    def __init__(self, parent=None, is_fn=False):
        self.d = {}
        self.parent = parent
        self.is_fn = is_fn

    def lookup(self, n):
        e = self
        while e is not None:
            if n in e.d:
                return e.d[n]
            e = e.parent
        raise NameError(n)

    def assign(self, n, v):
        # a let frame that binds n (before the function boundary) owns it;
        # otherwise the nearest function (or module) frame.
        e = self
        while True:
            if n in e.d and not e.is_fn:
                e.d[n] = v
                return
            if e.is_fn or e.parent is None:
                e.d[n] = v
                return
            e = e.parent


def tok(v):
    from hv.common import token
    return token(v)


class Interp:
    def __init__(self, max_steps=3000):
        self.steps = 0
        self.max_steps = max_steps

    def ev_event(self, tr, k, v):
        tr.append(("E", (str(k), _freeze(tok(v)))))

    def seq(self, tr):
        s = ["S"]
        tr.append(s)
        return s

    def par(self, tr):
        p = ["P"]
        tr.append(p)
        return p

    def body(self, nodes, env, tr):
        v = None
        for x in nodes:
            v = self.ev(x, env, tr)
        return v

    def ev_par(self, nodes, env, tr):
        p = self.par(tr)
        out = []
        for x in nodes:
            out.append(self.ev(x, env, self.seq(p)))
        return out

    def ev(self, n, env, tr):
        self.steps += 1
        if self.steps > self.max_steps:
            raise Budget()
        op = n["op"]
        if op == "lit":
            return n["v"]
        if op == "var":
            return env.lookup(n["n"])
        if op == "none":
            return None
        if op == "true":
            return True
        if op == "false":
            return False
        if op == "L":
            v = self.ev(n["e"], env, tr)
            self.ev_event(tr, n["k"], v)
            return v
        if op == "do":
            return self.body(n["b"], env, tr)
        if op == "if":
            return self.ev(n["a"] if self.ev(n["c"], env, tr) else n["b"], env, tr)
        if op == "when":
            if self.ev(n["c"], env, tr):
                return self.body(n["b"], env, tr)
            return None
        if op == "cond":
            for c, r in n["cl"]:
                if self.ev(c, env, tr):
                    return self.ev(r, env, tr)
            return None
        if op in ("and", "or"):
            v = True if op == "and" else None
            for x in n["xs"]:
                v = self.ev(x, env, tr)
                if (op == "and") != bool(v):
                    return v
            return v
        if op == "not":
            return not self.ev(n["e"], env, tr)
        if op == "setv":
            for name, x in n["ps"]:
                env.assign(name, self.ev(x, env, tr))
            return None
        if op == "setx":
            v = self.ev(n["e"], env, tr)
            env.assign(n["n"], v)
            return v
        if op == "let":
            e2 = Env(env)
            for name, x in n["bs"]:
                e2.d[name] = self.ev(x, e2, tr)
            return self.body(n["b"], e2, tr)
        if op == "fn":
            return Closure(n, env)
        if op in ("defn", "setfn"):
            env.assign(n["n"], Closure(n, env))
            return None
        if op == "call":
            f = self.ev(n["f"], env, tr)
            args = self.ev_par(n["args"], env, tr)
            return self.apply(f, args, tr)
        if op == "F":
            vals = self.ev_par(n["args"] + [v for _, v in n["kw"]], env, tr)
            self.ev_event(tr, f"F{n['k']}", None)
            return sum(a for a in vals if isinstance(a, int))
        if op == "bin":
            vs = self.ev_par(n["xs"], env, tr)
            r = vs[0]
            for x in vs[1:]:
                r = r + x if n["o"] == "+" else r - x if n["o"] == "-" else r * x
            return r
        if op == "cmp":
            a, b = self.ev_par([n["a"], n["b"]], env, tr)
            o = n["o"]
            return (a < b if o == "<" else a <= b if o == "<=" else a == b if o == "="
                    else a != b if o == "!=" else a > b)
        if op in ("list", "tuple", "set"):
            vs = self.ev_par(n["xs"], env, tr)
            return list(vs) if op == "list" else tuple(vs) if op == "tuple" else set(vs)
        if op == "dict":
            vs = self.ev_par(n["xs"], env, tr)
            return dict(zip(vs[::2], vs[1::2]))
        if op == "range":
            return range(self.ev(n["n"], env, tr))
        if op == "get":
            o, i = self.ev_par([n["o"], n["i"]], env, tr)
            return o[i]
        if op == "cut":
            vs = self.ev_par([n["o"]] + n["ix"], env, tr)
            o, ix = vs[0], vs[1:]
            return o[:ix[0]] if len(ix) == 1 else o[ix[0]:ix[1]]
        if op == "sum":
            return SUM(self.ev(n["e"], env, tr))
        if op in ("lfor", "sfor", "gfor", "dfor"):
            it = self.ev(n["it"], env, tr)
            e2 = Env(env)
            out = []
            for x in it:
                e2.d[n["x"]] = x
                if n["if"] is not None and not self.ev(n["if"], e2, tr):
                    continue
                if op == "dfor":
                    kv = self.ev_par([n["k"], n["e"]], e2, tr)
                    out.append(tuple(kv))
                else:
                    out.append(self.ev(n["e"], e2, tr))
            return (list(out) if op in ("lfor", "gfor") else set(out) if op == "sfor" else dict(out))
        if op == "while":
            env.assign(n["w"], 0)
            broke = False
            while self.ev(n["c"], env, tr):
                env.assign(n["w"], env.lookup(n["w"]) + 1)
                try:
                    self.body(n["b"], env, tr)
                except Jump as j:
                    if j.kind == "break":
                        broke = True
                        break
                    if j.kind == "continue":
                        continue
                    raise
            if not broke and n["else"] is not None:
                self.body(n["else"], env, tr)
            return None
        if op == "for":
            it = self.ev(n["it"], env, tr)
            broke = False
            for x in it:
                env.assign(n["x"], x)
                try:
                    # the :if clause is part of the loop body (for x in it: if cond: body)
                    if n["if"] is not None and not self.ev(n["if"], env, tr):
                        continue
                    self.body(n["b"], env, tr)
                except Jump as j:
                    if j.kind == "break":
                        broke = True
                        break
                    if j.kind == "continue":
                        continue
                    raise
            if not broke and n["else"] is not None:
                self.body(n["else"], env, tr)
            return None
        if op == "with":
            return self.ev_with(n["ms"], n["b"], env, tr)
        if op == "try":
            return self.ev_try(n, env, tr)
        if op == "raise":
            raise EXC[n["x"]](n["k"])
        if op == "return":
            raise Jump("return", self.ev(n["e"], env, tr))
        if op in ("break", "continue"):
            raise Jump(op)
        raise AssertionError(op)

    def apply(self, f, args, tr):
        node = f.node
        e2 = Env(f.env, is_fn=True)
        ps, defs = node["ps"], node["defs"]
        for i, p in enumerate(ps):
            if i < len(args):
                e2.d[p] = args[i]
            else:
                e2.d[p] = defs[i - (len(ps) - len(defs))]["v"]
        try:
            return self.body(node["b"], e2, tr)
        except Jump as j:
            if j.kind == "return":
                return j.value
            raise

    def ev_with(self, ms, body, env, tr):
        if not ms:
            return self.body(body, env, tr)
        var, k, shape = ms[0]
        if shape == "stmt":
            env.assign(f"tm{k}", k)
        self.ev_event(tr, f"{k}:enter", None)
        if var:
            env.assign(var, k)
        try:
            v = self.ev_with(ms[1:], body, env, tr)
        except Jump as j:
            self.ev_event(tr, f"{k}:exit", None)
            raise
        except (EA, EB) as ex:
            self.ev_event(tr, f"{k}:exit", type(ex).__name__)
            if shape == "supp":
                return None
            raise
        self.ev_event(tr, f"{k}:exit", None)
        return v

    def ev_try(self, n, env, tr):
        try:
            try:
                v = self.body(n["b"], env, tr)
            except (EA, EB) as ex:
                kind = "A" if isinstance(ex, EA) else "B"
                for kinds, var, hb, _ in n["hs"]:
                    if kinds is None or kind in kinds:
                        e2 = env
                        if var:
                            e2 = Env(env)
                            e2.d[var] = ex
                        return self.body(hb, e2, tr) if hb else None
                raise
            else:
                if n["else"] is not None:
                    v = self.body(n["else"], env, tr)
                return v
        finally:
            if n["fin"] is not None:
                self.body(n["fin"], env, tr)

    def run(self, prog):
        env = Env(is_fn=True)
        tr = ["S"]
        for v, x in prog["init"]:
            env.d[v] = x
        out = {"value": None, "exc": None}
        try:
            self.body(prog["forms"], env, tr)
            out["value"] = self.ev(prog["last"], env, tr)
        except (EA, EB) as ex:
            out["exc"] = [type(ex).__name__, list(ex.args)]
        out["final"] = [env.d.get(v) for v, _ in prog["init"]]
        out["trace"] = tr
        return out


# ---------------------------------------------------------------------------
# series-parallel trace acceptance by derivatives

def _freeze(x):
    if isinstance(x, list):
        return tuple(_freeze(y) for y in x)
    return x


def norm(s):
    """Normalise a trace structure (nested lists) to a hashable tuple form with
    empty nodes removed."""
    if isinstance(s, tuple) and s and s[0] == "E":
        return s
    tag = s[0]
    kids = [norm(c) for c in s[1:]]
    kids = [c for c in kids if c is not None]
    if tag == "S":
        flat = []
        for c in kids:
            if c[0] == "S":
                flat.extend(c[1:])
            else:
                flat.append(c)
        kids = flat
    if not kids:
        return None
    if len(kids) == 1:
        return kids[0]
    return (tag,) + tuple(kids)


def deriv(s, e):
    """Set of residual structures after consuming event e (None = empty)."""
    if s is None:
        return set()
    tag = s[0]
    if tag == "E":
        return {None} if s[1] == e else set()
    kids = s[1:]
    out = set()
    if tag == "S":
        for d in deriv(kids[0], e):
            rest = kids[1:]
            if d is None:
                out.add(rest[0] if len(rest) == 1 else ("S",) + rest)
            else:
                out.add(("S", d) + rest)
        return out
    for i, c in enumerate(kids):
        for d in deriv(c, e):
            rest = kids[:i] + ((d,) if d is not None else ()) + kids[i + 1:]
            if not rest:
                out.add(None)
            elif len(rest) == 1:
                out.add(rest[0])
            else:
                out.add(("P",) + rest)
    return out


def accepts(struct, events, max_states=20000):
    """events: list of [k, token]. Returns (ok, position of first mismatch or None).
    ok is None if the matcher budget was exceeded."""
    states = {norm(struct)}
    work = 0
    for pos, ev in enumerate(events):
        e = (str(ev[0]), _freeze(ev[1]))
        nxt = set()
        for s in states:
            nxt |= deriv(s, e)
            work += 1
        if work > max_states or len(nxt) > 2000:
            return None, pos
        if not nxt:
            return False, pos
        states = nxt
    if None in states:
        return True, None
    return False, len(events)


def count_events(s):
    s = norm(s) if not (isinstance(s, tuple)) else s
    if s is None:
        return 0
    if s[0] == "E":
        return 1
    return sum(count_events(c) for c in s[1:])
