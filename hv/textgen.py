"""Text-level generators and reference recognisers shared by the reader checks
(C18 any text, C22 numeric literals, C23 string literals, C26 constructors).

Nothing here imports hy at module level; `read_all` imports the tree's reader
lazily so that the module can be imported by the coordinator as well.
"""
import re

# --------------------------------------------------------------------------
# reading with the real reader
# --------------------------------------------------------------------------


def read_all(text, **kw):
    """Iterate hy.read_many(text) to the end. Returns (models, exception|None).
    The harness' own CaseTimeout is never swallowed."""
    import hy
    out = []
    try:
        for m in hy.read_many(text, **kw):
            out.append(m)
    except BaseException as e:  # the type is what C18 is about
        if type(e).__name__ == "CaseTimeout":
            raise
        return out, e
    return out, None


def is_reader_error(e):
    """LexException / PrematureEndOfInput (both SyntaxErrors per the docs)."""
    from hy.reader.exceptions import LexException
    return isinstance(e, LexException) and isinstance(e, SyntaxError)


def exc_name(e):
    return None if e is None else type(e).__name__


class Quota:
    """Per-shard quota for input classes that are *known* to violate (recorded
    findings). The worker forwards at most 200 violating cases per shard to the
    coordinator; without a quota the known mechanisms (several % of the cases)
    would use up those slots within the first second of a run and a *new*
    violation later in the run would never be reported. The first `k` cases of
    each such class still run and are reported as KNOWN-FINDING."""

    def __init__(self, k=40):
        self.k = k
        self.n = {}

    def admit(self, keys):
        if any(self.n.get(key, 0) >= self.k for key in keys):
            return False
        for key in keys:
            self.n[key] = self.n.get(key, 0) + 1
        return True


# --------------------------------------------------------------------------
# character pools
# --------------------------------------------------------------------------

ASCII_WS = " \t\n\r\x0b\x0c"
# whitespace for Python's int()/float()/str.strip() but *not* for Hy's reader
# (docs/syntax.rst "Whitespace": only the six ASCII characters are whitespace)
UNI_SPACES = ["\x85", "\xa0", "\u1680", "\u2000", "\u2003", "\u2009", "\u200a",
              "\u2028", "\u2029", "\u202f", "\u205f", "\u3000"]
NON_ASCII_LETTERS = ["\xe9", "\xff", "\u0101", "\u03bb", "\u2708", "\U0001f991",
                     "\u00aa", "\u212a", "\ufe33", "\uff3f", "\U0010ffff"]
NON_ASCII_DIGITS = ["\u0663", "\uff11", "\u0967", "\u00b2", "\u2167", "\U0001d7d8"]
SURROGATES = ["\ud800", "\udfff", "\udc80"]
DELIMS = "()[]{};\"'`~"
OPENER_CHARS = set("([{'`~#")

# --------------------------------------------------------------------------
# C18 (a): hostile random text over syntax-significant characters and tokens
# --------------------------------------------------------------------------

_HOSTILE = (
    # (token, weight)
    [(c, 6) for c in "()[]{}"] + [('"', 8), ("'", 3), ("`", 2), ("~", 2), ("@", 2),
     ("#", 5), (";", 2), (":", 4), (".", 5), (",", 2), ("_", 2), ("-", 3), ("+", 2),
     ("\\", 6), ("\n", 4), ("\r", 2), (" ", 10), ("\t", 1), ("\x0c", 1), ("\x0b", 1),
     ("=", 2), ("!", 2), ("*", 1), ("^", 1), ("|", 1), ("/", 1), ("}", 3), ("{", 2)] +
    [(t, 2) for t in ["#[", "#(", "#{", "#_", "#*", "#**", "#^", "#!", 'f"', 'b"', 'r"',
                      'rb"', 't"', 'br"', 'u"', 'F"', 'bf"', 'ff"', "\\N{", "\\x", "\\u",
                      "\\U", '\\"', "\\\\", "#[[", "]]", "#[f[", "]f]", "#[f-x[", "]f-x]",
                      "#[t[", "{{", "}}", "~@", "\r\n", "\\\n", "!r", ":>", "{x}", "{x=}",
                      "\\N{BULLET}", "\\x4", "\\400", "\\u12", "#_ ", "#^ ", "#* ",
                      ". ", "..", "...", "a.b", ".a", "a.", ":k", "#foo", "#:"]] +
    [(d, 2) for d in "0123456789"] +
    [(t, 2) for t in ["e", "j", "x", "o", "b", "a", "f", "r", "t", "N", "NaN", "Inf",
                      "-Inf", "nan", "0x", "1e", "1_0", "1,0", "5j", "1+2j", "0b2", "_1"]] +
    [(c, 1) for c in NON_ASCII_LETTERS + NON_ASCII_DIGITS + UNI_SPACES + SURROGATES] +
    [("\x00", 2), ("\x1c", 1), ("\x7f", 1), ("\ufeff", 1), ("\u200b", 1)]
)
_HOSTILE_TOKS = [t for t, w in _HOSTILE for _ in range(w)]
_HOSTILE_SAFE = [t for t in _HOSTILE_TOKS if not (set(t) & OPENER_CHARS)]


def opener_cost(tok):
    return sum(1 for c in tok if c in OPENER_CHARS)


def hostile_text(rng, maxlen=200, max_open=30):
    """Random text; every reader mechanism that nests (sequences, quote sugar,
    `#` dispatch, f-string fields) needs one of OPENER_CHARS, so bounding their
    number bounds the nesting depth (the reader is cubic in depth)."""
    target = rng.choice([rng.randint(1, 12), rng.randint(1, 60), rng.randint(1, maxlen)])
    out, n, budget = [], 0, max_open
    # a few texts concentrate on a small sub-alphabet (more collisions)
    pool, safe = _HOSTILE_TOKS, _HOSTILE_SAFE
    if rng.random() < 0.3:
        sub = [rng.choice(_HOSTILE_TOKS) for _ in range(rng.randint(2, 8))]
        pool = sub
        safe = [t for t in sub if not (set(t) & OPENER_CHARS)] or [" "]
    while n < target:
        t = rng.choice(pool)
        c = opener_cost(t)
        if c > budget:
            t = rng.choice(safe)
            c = 0
        if n + len(t) > maxlen:
            break
        budget -= c
        out.append(t)
        n += len(t)
    return "".join(out)


# --------------------------------------------------------------------------
# C18 (b): small well-formed programs (as token lists) and their mutations
# --------------------------------------------------------------------------

_SYMS = ["a", "foo", "x1", "-", "+", "*map*", "is?", "set!", "a-b", "_x", "__y", "\u03bb",
         "just\u2708wrong", "\U0001f991", "3fiddy", "$40", "None", "True", "if", "...",
         ".", "a.b", ".m", "..a.b", "a.b.c", "&rest", "->", "<=", "e5", "j", "nan", "_1",
         "hy.I.os", "a\u2009b", "a#", "%1"]
_STRS = ['"abc"', '""', '"a\\nb"', '"q\\"q"', '"\\x41\\u0101\\N{BULLET}"', '"multi\nline"',
         '"cr\r\nlf"', 'r"raw\\d"', 'b"by\\x00tes"', 'rb"\\q"', 'br"x"', '"\\\n cont"',
         '"{not f}"', '"\u03bb\U0001f991"', "#[[bracket]]", "#[==[a]]b]=]c]==]",
         "#[foo[\nline]foo]", '#[["q"]]', 'f"a{x}b"', 'f"{x !r:>{w}}"', 'f"{{}}{(+ 1 2) = }"',
         "#[f[{a} and {b:03}]f]", 'f"{x :x}"', 'f"\\N{BULLET}{y}"', 'f"{"s"}"']
_WS = [" ", " ", " ", "\n", "\t", "  ", "\r\n", " ;c\n", "\n; ( \"\n", "\x0c", "\r"]


def _wf_atom(rng, toks):
    r = rng.random()
    if r < 0.35:
        toks.append(rng.choice(_SYMS))
    elif r < 0.45:
        toks.append(":" + rng.choice(["k", "foo-bar", "", "\u03bb", "a?", "1", "#x"]))
    elif r < 0.7:
        toks.append(rng.choice([py_number, ext_number])(rng))
    else:
        toks.append(rng.choice(_STRS))


def wf_form(rng, depth, toks):
    r = rng.random()
    if depth <= 0 or r < 0.4:
        _wf_atom(rng, toks)
    elif r < 0.78:
        op, cl = rng.choice([("(", ")"), ("(", ")"), ("[", "]"), ("{", "}"), ("#{", "}"), ("#(", ")")])
        toks.append(op)
        for i in range(rng.randint(0, 4)):
            if i or rng.random() < 0.2:
                toks.append(rng.choice(_WS))
            wf_form(rng, depth - 1, toks)
        if rng.random() < 0.15:
            toks.append(rng.choice(_WS))
        toks.append(cl)
    elif r < 0.9:
        p = rng.choice(["'", "`", "~", "~@", "#*", "#**", "#_", "#^"])
        toks.append(p)
        if p[0] == "#" or rng.random() < 0.2:
            toks.append(" ")     # `#*#(..)`, `#*f"..."` would read as a reader-macro name
        wf_form(rng, depth - 1, toks)
        if p in ("#_", "#^"):
            toks.append(rng.choice(_WS))
            wf_form(rng, depth - 1, toks)
    else:
        # f-string with nested forms in its fields
        toks.append('f"')
        for _ in range(rng.randint(1, 3)):
            toks.append(rng.choice(["txt", "", "{{", "\\n", " ", "}}"]))
            toks.append("{")
            toks.append(" ")     # `{{` would be an escaped brace
            wf_form(rng, min(depth - 1, 1), toks)
            toks.append(" ")     # identifiers swallow `!r`, `:spec` and `=`
            toks.append(rng.choice(["", "", "!r", ":>5", "=", "= !s :x", ":{w}"]))
            toks.append("}")
        toks.append('"')


def wellformed_tokens(rng, depth=5, nforms=None):
    toks = []
    for i in range(nforms or rng.randint(1, 4)):
        if i:
            toks.append(rng.choice(_WS))
        wf_form(rng, depth, toks)
    if rng.random() < 0.3:
        toks.append(rng.choice(_WS))
    return toks


def mutate_tokens(rng, toks, other=None):
    """1-3 mutations (char or token level; splice with `other`). Returns text."""
    toks = list(toks)
    ops = []
    for _ in range(rng.choice([1, 1, 2, 3])):
        op = rng.choice(["cdel", "cins", "cdup", "cswap", "crep", "tdel", "tdup", "tswap",
                         "tins", "splice", "trunc", "tail"])
        ops.append(op)
        if op[0] == "t" and op not in ("trunc", "tail") and toks:
            i = rng.randrange(len(toks))
            if op == "tdel":
                del toks[i]
            elif op == "tdup":
                toks.insert(i, toks[i])
            elif op == "tswap":
                j = rng.randrange(len(toks))
                toks[i], toks[j] = toks[j], toks[i]
            elif op == "tins":
                toks.insert(i, rng.choice(_HOSTILE_TOKS))
            continue
        if op == "splice" and other:
            i = rng.randrange(len(toks) + 1)
            j = rng.randrange(len(other) + 1)
            toks = toks[:i] + list(other[j:])
            continue
        text = "".join(toks)
        if not text:
            toks = [rng.choice(_HOSTILE_TOKS)]
            continue
        i = rng.randrange(len(text))
        if op == "cdel":
            text = text[:i] + text[i + 1:]
        elif op == "cins":
            text = text[:i] + rng.choice(_HOSTILE_TOKS) + text[i:]
        elif op == "cdup":
            text = text[:i] + text[i] + text[i:]
        elif op == "cswap" and i + 1 < len(text):
            text = text[:i] + text[i + 1] + text[i] + text[i + 2:]
        elif op == "crep":
            text = text[:i] + rng.choice(_HOSTILE_TOKS) + text[i + 1:]
        elif op == "trunc":
            text = text[:i]
        elif op == "tail":
            text = text[i:]
        toks = [text]
    return "".join(toks), ops


DEEP_KINDS = ["paren", "brack", "brace", "mixed", "quote", "hash", "unclosed", "fstr"]


def deep_nest(rng, depth, kind=None):
    """Deeply nested text of nesting depth `depth` (closed, unclosed or mixed)."""
    kind = kind or rng.choice(DEEP_KINDS)
    atom = rng.choice(["", "x", "1", '"s"', ":k", " a b "])
    if kind == "quote":
        return kind, "".join(rng.choice(["'", "`", "~"]) for _ in range(depth)) + (atom.strip() or "x")
    if kind == "hash":
        return kind, "".join(rng.choice(["#* ", "#** ", "#_ ", "#*", "#_"]) for _ in range(depth)) + " x" * (depth + 1)
    pairs = {"paren": [("(", ")")], "brack": [("[", "]")], "brace": [("{", "}")],
             "mixed": [("(", ")"), ("[", "]"), ("{", "}"), ("#(", ")"), ("#{", "}")],
             "unclosed": [("(", ""), ("[", "")], "fstr": [('f"{', '}"')]}[kind]
    ops = [rng.choice(pairs) for _ in range(depth)]
    sep = rng.choice(["", "", " ", "\n"])
    return kind, sep.join(o for o, _ in ops) + atom + sep.join(c for _, c in reversed(ops))


# --------------------------------------------------------------------------
# C22: numeric literal generators
# --------------------------------------------------------------------------

def _digits(rng, n, alphabet="0123456789", us=0.0, first=None):
    out = [rng.choice(first or alphabet)]
    for _ in range(n - 1):
        if us and rng.random() < us:
            out.append("_")
        out.append(rng.choice(alphabet))
    return "".join(out)


def _ndig(rng):
    return rng.choice([1, 1, 2, 3, 4, rng.randint(1, 12), rng.randint(1, 40)])


def py_int(rng):
    r = rng.random()
    us = rng.choice([0, 0, 0.3])
    if r < 0.4:
        return _digits(rng, _ndig(rng), us=us, first="123456789")
    if r < 0.5:
        return _digits(rng, rng.randint(1, 4), "0", us=us)       # 0, 00, 0_0
    p, alpha = rng.choice([("x", "0123456789abcdefABCDEF"), ("X", "0123456789abcdefABCDEF"),
                           ("o", "01234567"), ("O", "01234567"), ("b", "01"), ("B", "01")])
    return "0" + p + ("_" if us and rng.random() < 0.3 else "") + _digits(rng, _ndig(rng), alpha, us=us)


def _digitpart(rng, us):
    return _digits(rng, rng.choice([1, 1, 2, 3, rng.randint(1, 20)]), us=us)


def _exponent(rng, us):
    return rng.choice("eE") + rng.choice(["", "+", "-"]) + _digits(rng, rng.choice([1, 1, 2, 3]), us=us)


def py_float(rng):
    us = rng.choice([0, 0, 0.3])
    r = rng.random()
    if r < 0.3:
        s = _digitpart(rng, us) + "." + _digitpart(rng, us)
    elif r < 0.45:
        s = "." + _digitpart(rng, us)
    elif r < 0.6:
        s = _digitpart(rng, us) + "."
    else:
        s = _digitpart(rng, us)
        if rng.random() < 0.5:
            s += "." + (_digitpart(rng, us) if rng.random() < 0.7 else "")
        return s + _exponent(rng, us)
    if rng.random() < 0.4:
        s += _exponent(rng, us)
    return s


def py_imag(rng):
    us = rng.choice([0, 0, 0.3])
    return (py_float(rng) if rng.random() < 0.6 else _digitpart(rng, us)) + rng.choice("jJ")


def py_number(rng, sign=True):
    s = rng.choice([py_int, py_int, py_float, py_float, py_imag])(rng)
    if sign and rng.random() < 0.35:
        s = rng.choice("+-") + s
    return s


def _granted_slots(s):
    """Indices i such that a separator may be inserted *before* s[i] (or at the
    end, i == len(s)) by docs/syntax.rst: after a digit, after `.`, `e`, `j`,
    inside a radix prefix — but not before the first digit of the literal and
    (left unspecified by the docs) not directly after a sign."""
    slots = []
    seen_digit = False
    for i in range(1, len(s) + 1):
        p = s[i - 1]
        if p.isdigit():
            seen_digit = True
        if not seen_digit or p in "+-":
            continue
        slots.append(i)
    return slots


def ext_number(rng):
    """A documented Hy extension of Python's numeric syntax."""
    r = rng.random()
    if r < 0.06:
        return rng.choice(["NaN", "Inf", "-Inf"])
    if r < 0.22:
        # complex a+bj
        def real():
            return py_float(rng) if rng.random() < 0.5 else _digits(rng, rng.randint(1, 6))
        s = rng.choice(["", "", "+", "-"]) + real() + rng.choice("+-") + real() + rng.choice("jJ")
    elif r < 0.42:
        # leading zeros on a decimal integer
        s = "0" * rng.randint(1, 3) + _digits(rng, rng.randint(1, 8))
        if rng.random() < 0.3:
            s = rng.choice("+-") + s
        if rng.random() < 0.55:
            return s
    else:
        s = py_number(rng)
    # separators: commas for underscores, extra separators at granted places
    s = "".join(("," if c == "_" and rng.random() < 0.5 else c) for c in s)
    for _ in range(rng.choice([0, 1, 1, 2, 3, 6])):
        slots = _granted_slots(s)
        if not slots:
            break
        i = rng.choice(slots + [len(s)] * 2)
        s = s[:i] + rng.choice(["_", ",", "__", ",,", "_,"]) + s[i:]
    return s


_NEAR_FIXED = ["nan", "inf", "NAN", "INF", "Nan", "nAn", "iNF", "-inf", "-INF", "-nan", "+inf",
               "infinity", "INFINITY", "-infinity", "nanj", "infj", "Inf-INFj", "1+infj", "inf+1j",
               "1+nanJ", "0x", "0b", "0o", "0X", "0x_", "0b_", "0o,", "0b2", "0o8", "0xg", "0b12",
               "0o78", "0xfg", "1e", "1e+", "1e-", "1E", "e5", "E5", "e", "1ee5", "1e5e5", "1e5e",
               "1jj", "1j2", "0x1j", "1+2", "1j+2", "1+2j+3j", "0x1+2j", "1+0x2j", "++1", "--1",
               "+-1", "-+1", "1-", "1+", "-", "+", "_", ",", "_1", ",1", "__1", "_1_", "_0x1f",
               ",1e5", "_1j", "_NaN", "1/2", "1/", "0b1e5", "1x", "1a", "0xx1", "00x1", "0b", "1_e",
               "1e_", "1ej", "jj", "1j1j", "1+2jj", "1e5+", "1e5-j2", "1.2.3", "1..2", "1e5.5",
               "0x1.8", "_1.5", ",.5", "1.5.", ".1.", "1.j.", "0b1.1", "1e.5", "e.5", "1.x", ".x1",
               "-_5", "+,5", "-_1.5", "+_0x1f", "-,1e5", "+_5j", "-__5",
               # spellings the docs neither grant nor deny (observed only)
               "+Inf", "+NaN", "-NaN", "Infinity", "-Infinity", "+Infinity", "j", "J", "-j", "+J",
               "1+j", "1-J", "NaNj", "Infj", "Inf+Infj", "1+NaNj", "._5", ".,5", "-._5", "1e-_5",
               "1e+,5", "1+_2j", "1-,2j", "Na_N", "In,f"]


def near_miss(rng):
    """Identifier texts close to numbers: documented non-numbers, spellings the
    docs leave open, and a few that are numbers after all (the reference
    recogniser `classify_number` decides which)."""
    r = rng.random()
    if r < 0.3:
        return rng.choice(_NEAR_FIXED)
    base = rng.choice([py_number, ext_number])(rng)
    if r < 0.4:
        return rng.choice(["_", ",", "__", ",_"]) + base.lstrip("+-")
    if r < 0.48:
        return rng.choice("+-") + rng.choice(["_", ",", "_,"]) + base.lstrip("+-")
    if r < 0.58:
        pad = rng.choice(UNI_SPACES)
        return rng.choice([pad + base, base + pad, pad + base + pad])
    if r < 0.64:
        d = rng.choice(NON_ASCII_DIGITS + NON_ASCII_LETTERS)
        i = rng.randrange(len(base) + 1)
        return base[:i] + d + base[i:]
    if r < 0.7:
        # radix prefix with an illegal digit / without digits
        p = rng.choice(["0b", "0o", "0x", "0B", "0O", "0X"])
        bad = {"b": "23789", "o": "89", "x": "ghzGZ"}[p[1].lower()]
        good = {"b": "01", "o": "01234567", "x": "0123456789abcdef"}[p[1].lower()]
        body = [rng.choice(good) for _ in range(rng.randint(0, 4))]
        if body and rng.random() < 0.8:
            body.insert(rng.randrange(len(body) + 1), rng.choice(bad))
        elif rng.random() < 0.5:
            body = [rng.choice(bad)]
        else:
            body = []
        return p + "".join(body) + rng.choice(["", "", "_", ","])
    # generic single-character mutation of a number
    i = rng.randrange(len(base) + 1)
    ch = rng.choice("eEjJxXoObB.+-_,/agzZ%1")
    k = rng.random()
    if k < 0.45:
        return base[:i] + ch + base[i:]
    if k < 0.75 and i < len(base):
        return base[:i] + ch + base[i + 1:]
    if i < len(base) and len(base) > 1:
        return base[:i] + base[i + 1:]
    return base + ch


# --------------------------------------------------------------------------
# C22: independent recogniser of the *documented* numeric-literal language
# --------------------------------------------------------------------------

_FLOAT = r"(?:(?:[0-9]+\.[0-9]*|\.[0-9]+)(?:[eE][+-]?[0-9]+)?|[0-9]+[eE][+-]?[0-9]+)"
_REAL = r"(?:" + _FLOAT + r"|[0-9]+)"
_RE_DEC = re.compile(r"[0-9]+\Z")
_RE_RADIX = re.compile(r"(?:0[xX][0-9a-fA-F]+|0[oO][0-7]+|0[bB][01]+)\Z")
_RE_FLOAT = re.compile(_FLOAT + r"\Z")
_RE_IMAG = re.compile(_REAL + r"[jJ]\Z")
_RE_CPLX = re.compile(_REAL + r"[+-]" + _REAL + r"[jJ]\Z")
_RE_CPLX_BAREJ = re.compile(r"(?:" + _REAL + r"[+-])?[jJ]\Z")
_RE_INFNAN = re.compile(r"nan|inf", re.I)


def _py_strip(s):
    return s.strip("".join(UNI_SPACES))


def classify_number(text):
    """Three-valued reference for docs/syntax.rst "Numeric literals".

    -> ("num", kind, value, feats) : a number by the documented rules
       ("not", feats)              : certainly not a number by those rules
       ("grey", reason)            : the docs neither grant nor deny it
    kind in {"Integer", "Float", "Complex"}; feats is a set of feature tags."""
    feats = set()
    if not text:
        return ("not", feats)
    if not text.isascii():
        if any(c in SURROGATES for c in text):
            return ("not", feats | {"surrogate"})
        core = _py_strip(text)
        if core != text and core.isascii():
            sub = classify_number(core)
            if sub[0] == "num":
                # "Non-ASCII whitespace characters ... are treated as any other character"
                return ("not", {"uspace"})
            return sub if sub[0] == "grey" else ("not", set(sub[1]) | {"uspace-nonnum"})
        if any(c.isdigit() or c.isdecimal() or c.isnumeric() for c in text if not c.isascii()):
            return ("grey", "non-ascii-digit")
        if any(c.isspace() for c in text if not c.isascii()):
            # padded on one side with something else in between etc.: still try
            # to be certain only when Python's own conversion cannot succeed
            return ("grey", "non-ascii-space")
        return ("not", feats | {"non-ascii"})
    if text in ("NaN", "Inf", "-Inf"):
        return ("num", "Float", float(text), {"infnan"})
    sign = ""
    body = text
    if body[0] in "+-":
        sign, body = body[0], body[1:]
        feats.add("signed")
    if _RE_INFNAN.search(body):
        feats.add("infnan")
        if "_" in body or "," in body:
            return ("grey", "separator-in-inf-nan")
        try:
            complex(text)
        except ValueError:
            return ("not", feats)
        words = re.findall(r"infinity|nan|inf", body, re.I)
        if all(w in ("NaN", "Inf", "Infinity") for w in words):
            return ("grey", "inf-nan-spelling")
        return ("not", feats | {"infnan-case"})
    if not body:
        return ("not", feats)
    if body[0] in "_,":
        feats.add("leading-sep")
        if sign:
            feats.add("sep-after-sign")
        return ("not", feats)
    if not (body[0].isdigit() or body[0] == "."):
        # `j` is "understood by the constructor for complex" (1j) yet Hy reads it
        # as a symbol; neither it nor `j_` / `J,,` (separators after j) is gated
        if _RE_CPLX_BAREJ.match(body.replace("_", "").replace(",", "")):
            return ("grey", "bare-j")
        return ("not", feats)
    # separator placement
    grey = None
    seen_digit = False
    prev = ""
    for c in body:
        if c in "_,":
            feats.add("sep")
            if c == ",":
                feats.add("comma")
            if not seen_digit:
                grey = grey or "separator-before-first-digit-after-dot"
            elif prev in "+-":
                grey = grey or "separator-after-inner-sign"
            continue
        if c.isdigit():
            seen_digit = True
        prev = c
    stripped = body.replace("_", "").replace(",", "")
    if re.search(r"[_,]{2}", body):
        feats.add("sep-repeated")
    if body[-1] in "_,":
        feats.add("sep-trailing")
    res = None
    if _RE_DEC.match(stripped):
        if len(stripped) > 1 and stripped[0] == "0":
            feats.add("leadzero")
        res = ("Integer", int(sign + stripped, 10))
    elif _RE_RADIX.match(stripped):
        feats.add("radix")
        res = ("Integer", int(sign + stripped, 0))
    elif _RE_FLOAT.match(stripped):
        res = ("Float", float(sign + stripped))
    elif _RE_IMAG.match(stripped):
        feats.add("imag")
        res = ("Complex", complex(sign + stripped))
    elif _RE_CPLX.match(stripped):
        feats.update(("imag", "complex2"))
        res = ("Complex", complex(sign + stripped))
    elif _RE_CPLX_BAREJ.match(stripped):
        return ("grey", "bare-j")
    if res is None:
        return ("not", feats)
    if re.search(r"[eE]", stripped) and "radix" not in feats:
        feats.add("exp")
    if grey:
        return ("grey", grey)
    return ("num", res[0], res[1], feats)


# --------------------------------------------------------------------------
# C23: string-literal bodies and bracket strings
# --------------------------------------------------------------------------

_PLAIN = "abcxyzAZ 019(){}[];:#'~`@,._-+=*/<>!?$%^&|"
_C23_NA = ["\x80", "\xa0", "\xe9", "\xff", "\u0101", "\u03bb", "\u2028", "\u2708", "\ufeff",
           "\U0001f991", "\U0010ffff", "\x85"]
_ESC_VALID = ["\\x41", "\\xe9", "\\x00", "\\xfF", "\\u0101", "\\u2028", "\\ud800", "\\U0001F991",
              "\\U0010ffff", "\\N{BULLET}", "\\N{lf}", "\\N{latin small letter a}",
              "\\N{LATIN CAPITAL LETTER A WITH MACRON}", "\\0", "\\7", "\\12", "\\101", "\\377",
              "\\400", "\\777", "\\18", "\\0001", "\\n", "\\t", "\\a", "\\b", "\\f", "\\r", "\\v",
              "\\\\", "\\'", '\\"', "\\\n", "\\\r", "\\\r\n"]
_ESC_BROKEN = ["\\x", "\\x4", "\\xg1", "\\x4g", "\\u", "\\u12", "\\u123g", "\\U0001F99",
               "\\U00110000", "\\Uffffffff", "\\N", "\\N{", "\\N{}", "\\N{NOT A NAME}",
               "\\N{BULLET", "\\N{bullet }", "\\N{\xe9}", "\\N{\u0101}", "\\Nx", "\\N}",
               "\\8", "\\9", "\\q", "\\e", "\\A", "\\X41", "\\ ", "\\{", "\\#"]


def string_body(rng, maxitems=10):
    """Body of a double-quoted literal as a list of atomic items; an unescaped
    `"` or a dangling backslash never occurs, so the same body is also a valid
    body of a Python triple-quoted literal. Returns (body, feats)."""
    items, feats = [], set()
    for _ in range(rng.choice([0, 1, 1, 2, 3, rng.randint(1, maxitems)])):
        r = rng.random()
        if r < 0.22:
            items.append("".join(rng.choice(_PLAIN) for _ in range(rng.randint(1, 4))))
        elif r < 0.27:
            items.append(rng.choice("\t\x0c\x0b "))
        elif r < 0.37:
            items.append(rng.choice(["\n", "\r", "\r\n", "\n\r", "\r\r\n"]))
            feats.add("newline")
            if "\r" in items[-1]:
                feats.add("cr")
        elif r < 0.47:
            items.append(rng.choice(_C23_NA))
            feats.add("non-ascii")
        elif r < 0.62:
            c = chr(rng.randint(1, 127))
            items.append("\\" + c + ("\n" if c == "\r" and rng.random() < 0.5 else ""))
            feats.add("escape")
        elif r < 0.67:
            items.append("\\" + rng.choice(_C23_NA))
            feats.update(("escape", "esc-nonascii", "non-ascii"))
        elif r < 0.85:
            items.append(rng.choice(_ESC_VALID))
            feats.add("escape")
        else:
            items.append(rng.choice(_ESC_BROKEN))
            feats.add("escape")
            if not items[-1].isascii():
                feats.add("non-ascii")
    return "".join(items), feats


_DELIMS = [""] * 10 + ["=", "==", "===", "foo", "a b", "|", "'", '"', "\n", " ", "\u03bb",
           "\U0001f991", "x-y", "F", "g", "t", "t-x", "fx", "-f", "ff", "f_", "#", "(", ")",
           ";", "\\", "{", "}", "{x}", "a\rb", "\r", "\t", "\x00", "\ud800", "--", "=*="]


def bracket_delim(rng, allow_f=False):
    r = rng.random()
    if allow_f and r < 0.15:
        return rng.choice(["f", "f-", "f-x", "f-\u03bb", "f- "])
    if r < 0.75:
        return rng.choice(_DELIMS)
    pool = "ab=|-#\"'(;{ \n\u03bbf\\,.:~`"
    d = "".join(rng.choice(pool) for _ in range(rng.randint(1, 4)))
    if not allow_f and (d == "f" or d.startswith("f-")):
        d = "g" + d
    return d


def bracket_content(rng, delim, nul=True):
    """Content biased to contain `]`, fragments of the closer, leading
    newlines, CR, quotes, braces and backslashes."""
    closer = "]" + delim + "]"
    frag = [closer[:k] for k in range(1, len(closer))] + [closer[1:], delim, "]", "]]", "["]
    pool = frag * 3 + list("abc xy\"'\\{}#();") + ["\n", "\r", "\r\n", "\n\n", "\u03bb", "\U0001f991",
                                                   "\\n", "{x}", "]" + delim[:1], delim + "]"]
    if nul:
        pool += ["\x00", "\ud800"]
    items = []
    if rng.random() < 0.3:
        items.append(rng.choice(["\n", "\r", "\r\n", "\n\n", "\n\r", "\r\r", "\r\n\n"]))
    for _ in range(rng.choice([0, 1, 2, 3, rng.randint(1, 8)])):
        items.append(rng.choice(pool))
    if rng.random() < 0.12:
        items.append(closer)           # a real closer inside: the literal ends early
        items.append(rng.choice(pool))
    if rng.random() < 0.2:
        items.append(rng.choice(frag))
    return "".join(items)


def normalize_newlines(s):
    return s.replace("\r\n", "\n").replace("\r", "\n")


# --------------------------------------------------------------------------
# C26: candidate names
# --------------------------------------------------------------------------

_NAME_CHARS = (list("abcxyzAZ") * 2 + list(DELIMS) + list("#:.,_-") * 2 + list("0123456789") +
               list(ASCII_WS) + UNI_SPACES[:6] + ["\x00", "\xe9", "\u03bb", "\u2708"] +
               list("+*/<>=!?$%&|@^\\") + ["\x1c", "\ud800", "j", "e", "N", "I"])
_NAME_FIXED = ["", ".", "..", "...", "a.b", ".a", "a.", "a..b", "..a", ".a.b", "a.b.", "a.1", "1.a",
               ".:", ":.", ":", "::", ":a", "#", "#a", "a#", "a:b", "a#b", "#_", "#*", "-", "->",
               "j", "J", "NaN", "Inf", "-Inf", "nan", "r\"x\"", "b\"", "f\"a\"", "a\"b\"", "a b",
               "a\tb", "a\u2009b", "\u20095", "5\u3000", "\xa0", "a;b", "a'b", "'a", "~a", "~@a",
               "`a", "a`", "a(", "(a)", "[", "]", "{}", "a,b", ",", "_", "None", "True", "&optional"]


def name_candidate(rng):
    r = rng.random()
    if r < 0.12:
        return rng.choice(_NAME_FIXED)
    if r < 0.24:
        s = rng.choice([py_number, ext_number, near_miss])(rng)
        return s[:12]
    if r < 0.3:
        # dotted shapes
        parts = [rng.choice(["a", "b1", "", "-", "1", "x?", ":", "#", "\u03bb", "a b", "_"])
                 for _ in range(rng.randint(1, 4))]
        return (rng.choice(["", "", ".", ".."]) + ".".join(parts))[:12]
    n = rng.choice([0, 1, 1, 2, 2, 3, 4, rng.randint(0, 12)])
    return "".join(rng.choice(_NAME_CHARS) for _ in range(n))
