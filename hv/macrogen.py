"""Helpers shared by the macro-system checks C35 / C36 / C37.

* a JSON-able form tree with holes (macro templates), its Hy rendering and
  substitution (the generator's own knowledge of what a generated macro expands to);
* structural snapshots of model trees (types, ids, payload, position attributes);
* in-memory / on-disk fixture modules registered under unique names;
* a builtins-installed logger for code that runs at read or compile time.

Tree nodes (lists, so that cases stay JSON-serialisable):
  ["s", name]      symbol (may be dotted: rendered as written, the reader makes `(. a b)` of it)
  ["i", n]         integer          ["t", text]  string        ["k", name]  keyword
  ["e", [..]]      expression       ["l", [..]]  list          ["d", [..]]  dict      ["u", [..]] tuple
  ["h", j]         hole: the macro's j-th parameter (only inside templates)
  ["r"]            splice of the macro's #* rest parameter (only inside templates)
"""
import builtins
import itertools
import json
import os
import sys
import types

_uid = itertools.count()
POS_ATTRS = ("_start_line", "_start_column", "_end_line", "_end_column")


# ---------------------------------------------------------------------------
# form trees

def S(name):
    return ["s", name]


def E(*xs):
    return ["e", list(xs)]


def render(t, quasi=False):
    """Hy source text of a tree; with quasi=True holes become unquotes."""
    k = t[0]
    if k == "s":
        return t[1]
    if k == "i":
        return str(t[1])
    if k == "t":
        return json.dumps(t[1])
    if k == "k":
        return ":" + t[1]
    if k == "h":
        if not quasi:
            raise ValueError("hole outside a template")
        return f"~p{t[1]}"
    if k == "r":
        if not quasi:
            raise ValueError("splice outside a template")
        return "~@rest"
    o, c = {"e": ("(", ")"), "l": ("[", "]"), "d": ("{", "}"), "u": ("#(", ")")}[k]
    return o + " ".join(render(x, quasi) for x in t[1]) + c


def subst(t, args, rest):
    """Instantiate a template with the call's argument trees."""
    k = t[0]
    if k == "h":
        return args[t[1]]
    if k in "eldu":
        out = []
        for x in t[1]:
            if x[0] == "r":
                out.extend(rest)
            else:
                out.append(subst(x, args, rest))
        return [k, out]
    return t


def tree_size(t):
    return 1 + (sum(tree_size(x) for x in t[1]) if t[0] in "eldu" else 0)


# ---------------------------------------------------------------------------
# snapshots of model trees

def snapshot(m):
    """(type, id, set position attributes, payload, children) - everything a user can
    observe about a model tree, by identity."""
    import hy.models as M
    pos = tuple((a, getattr(m, a)) for a in POS_ATTRS if hasattr(m, a))
    extra = tuple((a, getattr(m, a)) for a in ("brackets", "conversion", "is_tstring", "expression")
                  if hasattr(m, a))
    if isinstance(m, M.Sequence):
        return (type(m).__name__, id(m), pos, extra, tuple(snapshot(c) for c in m))
    if isinstance(m, M.Keyword):
        return (type(m).__name__, id(m), pos, extra, m.name)
    if isinstance(m, M.Object):
        base = [b for b in type(m).__mro__ if b.__module__ == "builtins" and b is not object]
        return (type(m).__name__, id(m), pos, extra, (base[0].__repr__(m) if base else repr(m)))
    return (type(m).__name__, id(m), (), (), repr(m))


def snapshot_diff(a, b, path="", ignore_new_pos=False):
    """First difference between two snapshots of the *same* object tree, or None.
    ignore_new_pos: position attributes that were unset before may have been filled."""
    if a[0] != b[0]:
        return f"{path}: type {a[0]} -> {b[0]}"
    if a[1] != b[1]:
        return f"{path}: child object replaced"
    if a[2] != b[2]:
        da, db = dict(a[2]), dict(b[2])
        if not (ignore_new_pos and all(db.get(k) == v for k, v in da.items())):
            return f"{path}: positions {da} -> {db}"
    if a[3] != b[3]:
        return f"{path}: attributes {a[3]} -> {b[3]}"
    if isinstance(a[4], tuple) and isinstance(b[4], tuple):
        if len(a[4]) != len(b[4]):
            return f"{path}: length {len(a[4])} -> {len(b[4])}"
        for i, (x, y) in enumerate(zip(a[4], b[4])):
            d = snapshot_diff(x, y, f"{path}[{i}]", ignore_new_pos)
            if d:
                return d
        return None
    if a[4] != b[4]:
        return f"{path}: value {a[4]!r} -> {b[4]!r}"
    return None


def strip_positions(m, keep_root=False, _root=True):
    """Remove position attributes from a freshly built model tree (in place)."""
    import hy.models as M
    if not (keep_root and _root):
        for a in POS_ATTRS:
            if hasattr(m, a):
                delattr(m, a)
    if isinstance(m, M.Sequence):
        for c in m:
            strip_positions(c, keep_root, False)
    return m


# ---------------------------------------------------------------------------
# fixture modules

def unique(prefix):
    return f"{prefix}{os.getpid()}x{next(_uid)}"


class Registered:
    """Context manager: fresh in-memory modules registered in sys.modules under the
    given names for the duration of a case (so that `require`, `:module "name"` and
    `calling-module` can find them), removed afterwards."""

    def __init__(self, names):
        self.mods = {}
        for n in names:
            m = types.ModuleType(n)
            m.__file__ = f"<{n}>"
            self.mods[n] = m

    def __enter__(self):
        sys.modules.update(self.mods)
        return self.mods

    def __exit__(self, *exc):
        for n in self.mods:
            sys.modules.pop(n, None)
        return False


def run_hy(text, module, filename=None):
    """Compile + exec Hy text in an existing module (which stays registered).
    Returns (exception or None, phase)."""
    from hy.compiler import hy_compile
    from hy.reader import read_many
    filename = filename or f"<{module.__name__}>"
    try:
        tree = hy_compile(read_many(text, filename=filename), module, filename=filename, source=text)
        code = compile(tree, filename, "exec")
    except BaseException as e:
        if type(e).__name__ == "CaseTimeout":
            raise
        return e, "compile"
    try:
        exec(code, module.__dict__)
    except BaseException as e:
        if type(e).__name__ == "CaseTimeout":
            raise
        return e, "run"
    return None, None


# ---------------------------------------------------------------------------
# logger for read-time / compile-time code

LOGGER_NAME = "HVLOG"


class BuiltinLogger:
    """Installs `HVLOG(tag, value=None)` in builtins for the duration of a case; code that
    runs at read time or compile time (reader macros, macro bodies) logs through it."""

    def __init__(self):
        self.events = []

    def __call__(self, tag, value=None):
        self.events.append(tag)
        return value

    def length(self, tag, seq):
        """HVLEN(tag, seq): logs how many forms a (quoted) sequence holds."""
        self.events.append(f"{tag}={len(seq)}")

    def __enter__(self):
        self._old = getattr(builtins, LOGGER_NAME, None)
        setattr(builtins, LOGGER_NAME, self)
        builtins.HVLEN = self.length
        return self

    def __exit__(self, *exc):
        if hasattr(builtins, "HVLEN"):
            del builtins.HVLEN
        if self._old is None:
            try:
                delattr(builtins, LOGGER_NAME)
            except AttributeError:
                pass
        else:
            setattr(builtins, LOGGER_NAME, self._old)
        return False


# ---------------------------------------------------------------------------
# state hygiene between cases

import warnings as _warnings

_BASE_FILTERS = list(_warnings.filters)
HARNESS_BUILTINS = ("HVLOG", "HVLEN", "HVREC", "HVSNAP", "HVFN", "HVNS")


def reset_state(module_names=(), module_prefixes=(), path_markers=()):
    """Called at the start of every run_case: a case that was cut short (its timeout may have been
    swallowed and re-wrapped by hy, or by the REPL) must not leave anything behind that the next
    case in the same worker could observe."""
    for n in HARNESS_BUILTINS:
        if hasattr(builtins, n):
            try:
                delattr(builtins, n)
            except AttributeError:
                pass
    for n in list(sys.modules):
        if n in module_names or any(n.startswith(p) for p in module_prefixes):
            sys.modules.pop(n, None)
    for d in [d for d in sys.path if any(m in d for m in path_markers)]:
        sys.path.remove(d)
        sys.path_importer_cache.pop(d, None)
    _warnings.filters[:] = _BASE_FILTERS
    if hasattr(_warnings, "_filters_mutated"):
        _warnings._filters_mutated()
    try:
        from hy.reader.hy_reader import HyReader
        if getattr(HyReader, "_current_reader", None) is not None:
            HyReader._current_reader = None
    except Exception:
        pass
    try:
        import hy.models
        if getattr(hy.models, "_seen", None):
            hy.models._seen.clear()
    except Exception:
        pass
