#!/venv/bin/python
"""MANIFEST.setup_cmd: offline, idempotent. Installs icontract+deal into /verif/.deps."""
import os, sys
sys.path.insert(0, os.path.dirname(os.path.abspath(__file__)))
from hv import deps
ok = deps.ensure(verbose=True)
print("setup:", "ok" if ok else "FAILED (checks that need contracts will say so)")
sys.exit(0 if ok else 1)
